// Native replay of the C16 counterexample found by the contract check of
// DelayedDestructor::destroyObjects(): if copying the std::function callback throws
// (after the reaped objects were already taken off the list), stack unwinding destroys the
// objects while destructionLock is still held and without running the callback.
// exit 0 = behaviour required by C16, exit 1 = violation reproduced.
#include "gmlc/concurrency/DelayedDestructor.hpp"
#include <atomic>
#include <chrono>
#include <cstdio>
#include <future>
#include <memory>
#include <thread>
using namespace std::chrono_literals;
struct X;
using DD = gmlc::concurrency::DelayedDestructor<X>;
static DD* g_dd = nullptr;
static std::atomic<int> g_destroyed{0};
static std::atomic<int> g_destroyed_under_lock{0};
static std::atomic<int> g_callbacks{0};
struct X {
    ~X()
    {
        ++g_destroyed;
        // probe from another thread whether destructionLock is held right now
        auto done = std::make_shared<std::promise<void>>();
        auto fut = done->get_future();
        DD* dd = g_dd;
        std::thread([done, dd] { (void)dd->size(); done->set_value(); }).detach();
        if (fut.wait_for(400ms) == std::future_status::timeout) {
            ++g_destroyed_under_lock;
        }
    }
};
struct Callback {
    static bool failCopies;
    char big[128] = {0};  // too big for the small-object buffer: std::function copies allocate and copy-construct
    Callback() = default;
    Callback(const Callback&)
    {
        if (failCopies) {
            throw std::bad_alloc();
        }
    }
    Callback(Callback&&) noexcept {}
    void operator()(std::shared_ptr<X>&) const { ++g_callbacks; }
};
bool Callback::failCopies = false;
int main()
{
    {
        std::function<void(std::shared_ptr<X>&)> f{Callback{}};
        DD dd(std::move(f));
        g_dd = &dd;
        dd.addObjectsToBeDestroyed(std::make_shared<X>());
        Callback::failCopies = true;  // the k-th copy of the user callable throws
        auto left = dd.destroyObjects();
        Callback::failCopies = false;
        std::printf("after failing copy: list=%zu destroyed=%d underLock=%d callbacks=%d\n", left, g_destroyed.load(),
                    g_destroyed_under_lock.load(), g_callbacks.load());
        (void)dd.destroyObjects();
        std::printf("after retry       : list=%zu destroyed=%d underLock=%d callbacks=%d\n", dd.size(), g_destroyed.load(),
                    g_destroyed_under_lock.load(), g_callbacks.load());
        std::this_thread::sleep_for(500ms);  // let the probe threads finish before dd goes away
    }
    bool ok = g_destroyed == 1 && g_destroyed_under_lock == 0 && g_callbacks == 1;
    std::printf("%s\n", ok ? "OK: destroyed once, outside the lock, after one callback" :
                             "VIOLATION: object destroyed under destructionLock and/or without its callback");
    return ok ? 0 : 1;
}
