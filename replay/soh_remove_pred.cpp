// Native replay for C17: SearchableObjectHolder::removeObject(predicate) erases the map node and
// then reads obj->first from it (SearchableObjectHolder.hpp:138-139).  ASan reports the
// heap-use-after-free against the real header.
#include "gmlc/concurrency/SearchableObjectHolder.hpp"
#include <cstdio>
#include <memory>
#include <string>
using namespace gmlc::concurrency;
int main()
{
    SearchableObjectHolder<std::string, int> holder;
    auto p = std::make_shared<std::string>("payload");
    holder.addObject("a name long enough to be stored on the heap, not in the small-string buffer", p, 1);
    bool removed = holder.removeObject([&p](const std::shared_ptr<std::string>& o) { return o == p; });
    if (!removed) { std::puts("not removed"); return 3; }
    if (!holder.empty()) { std::puts("still there"); return 4; }
    std::puts("ok");
    return 0;
}
