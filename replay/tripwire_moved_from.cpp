// Native replay for C19 / TripWireTrigger destructor: destroying a moved-from trigger.
// Built against the real header with ASan+UBSan; exit status != 0 or a sanitizer report
// confirms the counterexample (destructor dereferences an empty shared_ptr).
#include "gmlc/concurrency/TripWire.hpp"
#include <cstdio>
#include <utility>
using namespace gmlc::concurrency;
int main()
{
    auto line = make_tripline();
    TripWireDetector det(line);
    {
        TripWireTrigger t(line);
        TripWireTrigger t2(std::move(t));   // t is now moved-from: lineTrigger is empty
        if (det.isTripped()) { std::puts("tripped too early"); return 3; }
    }                                       // ~t2 trips the line, ~t must be safe and trip nothing
    if (!det.isTripped()) { std::puts("line not tripped by the new owner"); return 4; }
    std::puts("ok");
    return 0;
}
