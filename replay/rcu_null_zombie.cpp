// Native replay for C13 (rcu_list destroys a node that does not exist): reader-registration
// records on the log carry zombie_node == nullptr; rcu_guard::unlock() and ~rcu_list() pass that
// null to allocator_traits::destroy / deallocate.  Element type with a non-trivial destructor,
// built with ASan+UBSan against the real headers.
#include "gmlc/libguarded/rcu_guarded.hpp"
#include "gmlc/libguarded/rcu_list.hpp"
#include <cstdio>
#include <string>
using namespace gmlc::libguarded;
int main(int argc, char** argv)
{
    bool dtor_only = argc > 1 && std::string(argv[1]) == "dtor";
    {
        rcu_guarded<rcu_list<std::string>> g;
        {
            auto w = g.lock_write();
            w->push_back("a long enough string to live on the heap, not in the small buffer");
        }
        if (!dtor_only) {
            // two short-lived read handles, nothing erased: releasing the second one reclaims the
            // first one's registration record - and "destroys" its null node
            { auto r = g.lock_read(); (void)r->begin(); }
            { auto r = g.lock_read(); (void)r->begin(); }
        }
    }   // ~rcu_list walks the whole log the same way
    std::puts("ok");
    return 0;
}
