#include "vf_driver.hpp"
#include "gmlc/concurrency/DelayedObjects.hpp"
using namespace gmlc::concurrency;
using DO = DelayedObjects<int>;
void drv(DO& d, const std::string& n, const int& v, int& w){
    auto f = d.getFuture(1); auto g = d.getFuture(n);
    d.setDelayedValue(1, v); d.setDelayedValue(n, v); d.setDelayedValue(1, std::move(w)); d.setDelayedValue(n, std::move(w));
    (void)d.isRecognized(1); (void)d.isRecognized(n); (void)d.isCompleted(1); (void)d.isCompleted(n);
    d.fulfillAllPromises(v); d.finishedWithValue(1); d.finishedWithValue(n);
    { DO x; }
}
