#include "vf_driver.hpp"
#include "gmlc/libguarded/lr_guarded.hpp"
#include <chrono>
using namespace gmlc::libguarded;
void drv(lr_guarded<vf::payload>& a, const lr_guarded<vf::payload>& ca, vf::fn_void& f){
    a.modify(f);
    { auto h = ca.lock_shared(); }
    { auto h = ca.try_lock_shared(); }
    { auto h = ca.try_lock_shared_for(std::chrono::milliseconds(1)); }
    { auto h = ca.try_lock_shared_until(std::chrono::steady_clock::now()); }
}
