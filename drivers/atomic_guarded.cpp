#include "vf_driver.hpp"
#include "gmlc/libguarded/atomic_guarded.hpp"
using namespace gmlc::libguarded;
void drv(atomic_guarded<vf::payload>& a, const atomic_guarded<vf::payload>& ca, const vf::payload& p, vf::payload& q){
    (void)ca.load(); a.store(p); a.store(std::move(q)); a = p; a = std::move(q);
    { vf::payload viaConversion = ca; }
    (void)a.exchange(p); (void)a.compare_exchange(q, p); (void)a.compare_exchange(q, std::move(q));
}
