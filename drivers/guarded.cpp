#include "vf_driver.hpp"
#include "gmlc/libguarded/guarded.hpp"
#include <chrono>
using namespace gmlc::libguarded;
template<class M> void use_guarded(guarded<vf::payload,M>& g, const vf::payload& p, vf::payload& q){
    { auto h=g.lock(); h.unlock(); auto h2=std::move(h); h=std::move(h2); (void)*h; (void)h.operator->(); (void)bool(h);}
    { auto h=g.try_lock(); }
    g.store(p); g.store(std::move(q)); g=p; g=std::move(q);
    (void)g.load();
}
template<class M> void use_guarded_timed(guarded<vf::payload,M>& g){
    { auto h=g.try_lock_for(std::chrono::milliseconds(1)); }
    { auto h=g.try_lock_until(std::chrono::steady_clock::now()); }
}
void drv(guarded<vf::payload,std::mutex>& a, guarded<vf::payload,std::timed_mutex>& b, const vf::payload& p, vf::payload& q){
    use_guarded(a,p,q); use_guarded(b,p,q); use_guarded_timed(b);
}
