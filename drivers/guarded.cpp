// driver: handles.hpp, guarded.hpp, guarded_opt.hpp for M in {mutex, timed_mutex}
#include "vf_driver.hpp"
#include "gmlc/libguarded/guarded.hpp"
#include "gmlc/libguarded/guarded_opt.hpp"
#include <chrono>
using namespace gmlc::libguarded;
template<class H> void use_handle(H& h, H& other){
    h.unlock(); H h2(std::move(h)); h = std::move(other); (void)*h; (void)h.operator->(); (void)bool(h);
}
template<class G> void use_guarded(G& g, const vf::payload& p, vf::payload& q){
    { auto h = g.lock(); auto h2 = g.try_lock(); use_handle(h, h2); }
    g.store(p); g.store(std::move(q)); g = p; g = std::move(q);
    (void)g.load();
}
template<class G> void use_timed(G& g){
    { auto h = g.try_lock_for(std::chrono::milliseconds(1)); }
    { auto h = g.try_lock_until(std::chrono::steady_clock::now()); }
}
void drv(guarded<vf::payload, std::mutex>& a, guarded<vf::payload, std::timed_mutex>& b,
         guarded_opt<vf::payload, std::mutex>& c, guarded_opt<vf::payload, std::timed_mutex>& d,
         const vf::payload& p, vf::payload& q){
    use_guarded(a, p, q); use_guarded(b, p, q); use_timed(b);
    use_guarded(c, p, q); use_guarded(d, p, q); use_timed(d);
}
