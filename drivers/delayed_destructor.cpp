#include "vf_driver.hpp"
#include "gmlc/concurrency/DelayedDestructor.hpp"
using namespace gmlc::concurrency;
using DD = DelayedDestructor<vf::obj>;
using DS = DelayedDestructorSingleThread<vf::obj>;
void drv(std::shared_ptr<vf::obj> p, std::function<void(std::shared_ptr<vf::obj>&)> f){
    { DD d; d.addObjectsToBeDestroyed(p); (void)d.size(); (void)d.destroyObjects(); (void)d.destroyObjects(std::chrono::milliseconds(10)); }
    { DD d2(f); }
    { DS s; s.addObjectsToBeDestroyed(p); (void)s.size(); (void)s.destroyObjects(); (void)s.destroyObjects(std::chrono::milliseconds(10)); }
    { DS s2(f); }
}
