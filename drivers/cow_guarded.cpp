#include "vf_driver.hpp"
#include "gmlc/libguarded/cow_guarded.hpp"
#include <chrono>
using namespace gmlc::libguarded;
void drv(cow_guarded<vf::payload>& g, const cow_guarded<vf::payload>& cg){
    { auto h = g.lock(); (void)*h; auto h2 = std::move(h); h2.cancel(); }
    { auto h = g.lock(); }
    { auto s = cg.lock_shared(); auto s2 = cg.try_lock_shared(); auto s3 = cg.try_lock_shared_for(std::chrono::milliseconds(1)); auto s4 = cg.try_lock_shared_until(std::chrono::steady_clock::now()); }
}
