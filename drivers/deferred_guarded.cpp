#include "vf_driver.hpp"
#include "gmlc/libguarded/deferred_guarded.hpp"
#include <chrono>
using namespace gmlc::libguarded;
template<class M> void use(deferred_guarded<vf::payload, M>& g, const deferred_guarded<vf::payload, M>& cg, vf::fn_void& f, vf::fn_val& fv){
    g.modify_detach(f); { auto fu = g.modify_async(fv); } { auto fu2 = g.modify_async(f); }
    { auto h = cg.lock_shared(); auto h2 = cg.try_lock_shared(); }
    (void)cg.load();
}
template<class M> void use_timed(const deferred_guarded<vf::payload, M>& cg){
    { auto h = cg.try_lock_shared_for(std::chrono::milliseconds(1)); }
    { auto h = cg.try_lock_shared_until(std::chrono::steady_clock::now()); }
}
void drv(deferred_guarded<vf::payload, std::shared_timed_mutex>& a, deferred_guarded<vf::payload, std::mutex>& b, vf::fn_void& f, vf::fn_val& fv){
    use(a, a, f, fv); use_timed(a); use(b, b, f, fv);
}
