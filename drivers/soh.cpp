#include "vf_driver.hpp"
#include "gmlc/concurrency/SearchableObjectHolder.hpp"
using namespace gmlc::concurrency;
using SOH = SearchableObjectHolder<vf::obj, int>;
void drv(SOH& s, const SOH& cs, const std::string& n, const std::string& n2, std::shared_ptr<vf::obj> p,
         std::function<bool(const std::shared_ptr<vf::obj>&)> f){
    s.addObject(n, p); s.addObject(n, p, 1); s.addType(n, 2); (void)s.empty(); (void)s.getObjects();
    s.removeObject(n); s.removeObject(f); s.copyObject(n, n2); (void)cs.checkObjectType(n, 1);
    (void)s.findObject(n); (void)s.findObject(f); (void)s.findObject(f, 1);
    { SOH x; }
}
