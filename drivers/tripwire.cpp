#include "vf_driver.hpp"
#include "gmlc/concurrency/TripWire.hpp"
DECLARE_TRIPLINE()
DECLARE_INDEXED_TRIPLINES(3)
using namespace gmlc::concurrency;
void drv(TriplineType line){
    { TripWireDetector d; TripWireDetector d1(1u); TripWireDetector d2(line); (void)d.isTripped(); }
    { TripWireTrigger t; TripWireTrigger t1(1u); TripWireTrigger t2(line); TripWireTrigger t3(std::move(t2)); t1 = std::move(t3); }
    auto l = make_tripline(); auto ls = make_triplines(2);
}
