#include "vf_driver.hpp"
#include "gmlc/concurrency/Latch.hpp"
#include "gmlc/concurrency/Barrier.hpp"
#include "gmlc/concurrency/TriggerVariable.hpp"
using namespace gmlc::concurrency;
void drv(Latch& l, Barrier& b, TriggerVariable& t){
    Latch l2(3); l.arrive(); l.wait(); l.arrive_and_wait();
    Barrier b2(2); b.wait(); b.wait_and_drop();
    TriggerVariable t2(false); t.activate(); t.trigger(); t.isTriggered(); t.wait(); t.wait_for(std::chrono::milliseconds(1));
    t.waitActivation(); t.wait_forActivation(std::chrono::milliseconds(1)); t.reset(); t.isActive();
}
