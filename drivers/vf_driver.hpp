// Common declarations for the verification drivers.  Everything here is *abstract*:
// declared, never defined.  The lowering turns calls to these into calls of bodiless C
// functions whose contracts live in /verif/models (trusted base, DESIGN.md section 5.4).
#pragma once
namespace vf {
/// abstract payload type: every special member is user code that may throw
struct payload {
    payload();
    payload(const payload&);
    payload(payload&&);
    payload& operator=(const payload&);
    payload& operator=(payload&&);
    ~payload();
    bool operator==(const payload&) const;
};
/// abstract functors
struct fn_void { void operator()(payload&); };
struct fn_val { int operator()(payload&); };
struct cfn_void { void operator()(const payload&); };
struct cfn_val { int operator()(const payload&); };
}  // namespace vf
namespace vf {
/// abstract shared object type (SearchableObjectHolder, DelayedDestructor)
struct obj { obj(); ~obj(); };
}
