#include "vf_driver.hpp"
#include "gmlc/libguarded/rcu_guarded.hpp"
#include "gmlc/libguarded/rcu_list.hpp"
using namespace gmlc::libguarded;
using list_t = rcu_list<vf::payload>;
void drv(rcu_guarded<list_t>& g, const rcu_guarded<list_t>& cg, const vf::payload& p){
    {
        auto w = g.lock_write();
        w->push_front(p); w->push_back(p); w->emplace_front(p); w->emplace_back(p);
        auto it = w->begin();
        if (it != w->end()) { (void)*it; (void)it.operator->(); ++it; it++; }
        auto it2 = w->begin();
        if (it2 != w->end()) { w->erase(it2); }
        (void)(*w).begin();
    }
    {
        auto r = cg.lock_read();
        for (auto it = r->begin(); it != r->end(); ++it) { (void)*it; }
        { auto cit = r->begin(); if (cit != r->end()) { cit++; } }
        (void)(*r).begin();
    }
    list_t l2;
}
