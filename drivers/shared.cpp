// driver: shared side of handles.hpp, shared_guarded, shared_guarded_opt, ordered_guarded for all four mutex types
#include "vf_driver.hpp"
#include "gmlc/libguarded/shared_guarded.hpp"
#include "gmlc/libguarded/shared_guarded_opt.hpp"
#include "gmlc/libguarded/ordered_guarded.hpp"
#include <chrono>
#include <shared_mutex>
using namespace gmlc::libguarded;
template<class H> void use_handle(H& h, H& other){
    h.unlock(); H h2(std::move(h)); h = std::move(other); (void)*h; (void)h.operator->(); (void)bool(h);
}
template<class G> void use_shared(G& g, const G& cg){
    { auto h = g.lock(); auto h2 = g.try_lock(); use_handle(h, h2); }
    { auto s = cg.lock(); auto s2 = cg.lock_shared(); auto s3 = cg.try_lock_shared(); use_handle(s, s2); }
}
template<class G> void use_shared_timed(G& g, const G& cg){
    { auto h = g.try_lock_for(std::chrono::milliseconds(1)); }
    { auto h = g.try_lock_until(std::chrono::steady_clock::now()); }
    { auto h = cg.try_lock_shared_for(std::chrono::milliseconds(1)); }
    { auto h = cg.try_lock_shared_until(std::chrono::steady_clock::now()); }
}
template<class G> void use_ordered(G& g, const G& cg, const vf::payload& p, vf::payload& q,
                                   vf::fn_void& f1, vf::fn_val& f2, vf::cfn_void& f3, vf::cfn_val& f4){
    g.modify(f1); (void)g.modify(f2); cg.read(f3); (void)cg.read(f4);
    { auto s = cg.lock_shared(); auto s2 = cg.try_lock_shared(); }
    (void)cg.load(); g.store(p); g.store(std::move(q)); g = p; g = std::move(q);
    { vf::payload viaConversion = cg; }
}
template<class G> void use_ordered_timed(const G& cg){
    { auto h = cg.try_lock_shared_for(std::chrono::milliseconds(1)); }
    { auto h = cg.try_lock_shared_until(std::chrono::steady_clock::now()); }
}
template<class M> void all(shared_guarded<vf::payload, M>& a, shared_guarded_opt<vf::payload, M>& b, ordered_guarded<vf::payload, M>& c,
                           const vf::payload& p, vf::payload& q, vf::fn_void& f1, vf::fn_val& f2, vf::cfn_void& f3, vf::cfn_val& f4){
    use_shared(a, a); use_shared(b, b); use_ordered(c, c, p, q, f1, f2, f3, f4);
}
template<class M> void all_timed(shared_guarded<vf::payload, M>& a, shared_guarded_opt<vf::payload, M>& b, ordered_guarded<vf::payload, M>& c){
    use_shared_timed(a, a); use_shared_timed(b, b); use_ordered_timed(c);
}
void drv(shared_guarded<vf::payload, std::mutex>& a1, shared_guarded_opt<vf::payload, std::mutex>& b1, ordered_guarded<vf::payload, std::mutex>& c1,
         shared_guarded<vf::payload, std::timed_mutex>& a2, shared_guarded_opt<vf::payload, std::timed_mutex>& b2, ordered_guarded<vf::payload, std::timed_mutex>& c2,
         shared_guarded<vf::payload, std::shared_mutex>& a3, shared_guarded_opt<vf::payload, std::shared_mutex>& b3, ordered_guarded<vf::payload, std::shared_mutex>& c3,
         shared_guarded<vf::payload, std::shared_timed_mutex>& a4, shared_guarded_opt<vf::payload, std::shared_timed_mutex>& b4, ordered_guarded<vf::payload, std::shared_timed_mutex>& c4,
         const vf::payload& p, vf::payload& q, vf::fn_void& f1, vf::fn_val& f2, vf::cfn_void& f3, vf::cfn_val& f4){
    all(a1, b1, c1, p, q, f1, f2, f3, f4); all(a2, b2, c2, p, q, f1, f2, f3, f4); all(a3, b3, c3, p, q, f1, f2, f3, f4); all(a4, b4, c4, p, q, f1, f2, f3, f4);
    all_timed(a2, b2, c2); all_timed(a4, b4, c4);
}
