/* Trusted run-time models: behaviour (DESIGN.md section 5).  Included after the unit's ghost
 * code, which may define the VF_HOOK_* macros below to add the unit's environment step,
 * monitor invariant or rely/guarantee checks at every synchronisation point. */

#ifndef VF_HOOK_ACQUIRED        /* (struct vf_mutex* m, int shared): just after m was acquired */
#define VF_HOOK_ACQUIRED(m, shared) vf_default_acquired(m)
#endif
#ifndef VF_HOOK_RELEASING       /* (struct vf_mutex* m, int shared): just before m is released */
#define VF_HOOK_RELEASING(m, shared) ((void)0)
#endif
#ifndef VF_HOOK_RELEASED        /* after the release (environment may run) */
#define VF_HOOK_RELEASED(m, shared) ((void)0)
#endif
#ifndef VF_HOOK_TRY_FAILED      /* (struct vf_mutex* m): a try-lock (plain or timed, either mode) did not get m */
#define VF_HOOK_TRY_FAILED(m) ((void)0)
#endif
#ifndef VF_HOOK_BLOCKING        /* (struct vf_mutex* m): a blocking lock()/lock_shared() of m starts */
#define VF_HOOK_BLOCKING(m) ((void)0)
#endif
#ifndef VF_HOOK_CV_WAIT         /* (struct vf_cv* c, struct vf_lock* l): entering a wait */
#define VF_HOOK_CV_WAIT(c, l) ((void)0)
#endif
#ifndef VF_HOOK_NOTIFY          /* (struct vf_cv* c, int all) */
#define VF_HOOK_NOTIFY(c, all) ((void)0)
#endif
#ifndef VF_HOOK_ATOMIC_PRE      /* (void* a): before an atomic access (environment step) */
#define VF_HOOK_ATOMIC_PRE(a) ((void)0)
#endif
#ifndef VF_HOOK_ATOMIC_POST     /* (void* a): after an atomic access (environment step) */
#define VF_HOOK_ATOMIC_POST(a) ((void)0)
#endif
#ifndef VF_HOOK_ATOMIC_READ     /* (void* a, long val, int mo) */
#define VF_HOOK_ATOMIC_READ(a, val, mo) ((void)0)
#endif
#ifndef VF_HOOK_ATOMIC_WRITE    /* (void* a, long oldv, long newv, int mo, int is_rmw) */
#define VF_HOOK_ATOMIC_WRITE(a, oldv, newv, mo, rmw) ((void)0)
#endif
#ifndef VF_HOOK_YIELD
#define VF_HOOK_YIELD() ((void)0)
#endif
#ifndef VF_HOOK_USER            /* inside every call of user code (functor, payload member) */
#define VF_HOOK_USER() ((void)0)
#endif
#ifndef VF_ACCESS               /* (struct vf_payload* p, int write, const char* what) */
#define VF_ACCESS(p, write) vf_default_access(p, write)
#endif
#ifndef VF_HOOK_FUNCTOR         /* (struct vf_payload* p, int write): a user functor is about to be applied to p */
#define VF_HOOK_FUNCTOR(p, w) ((void)0)
#endif
#ifndef VF_USER_WRITE_VALUE     /* (struct vf_payload* p): abstract value after a mutating functor */
#define VF_USER_WRITE_VALUE(p) vf_nondet_int()
#endif
#ifndef VF_MAX_HELD             /* lock-order discipline: locks held at once by library code */
#define VF_MAX_HELD 1
#endif

#define VF_INC(x) do { if ((x) < VF_BIG) (x) = (x) + 1; } while (0)

void vf_default_acquired(struct vf_mutex *m)
{
  if (m->guards != 0) {
    /* L4: other holders may have written the object since we last looked */
    m->guards->v = vf_nondet_int();
    vf_cs_entry_v = m->guards->v;
  }
}

void vf_default_access(struct vf_payload *p, int write)
{
  if (p->guard != 0) {
    if (write)
      __CPROVER_assert(p->guard->excl_me,
                       "[L1] write access to the guarded object without holding its mutex exclusively");
    else
      __CPROVER_assert(p->guard->excl_me || p->guard->shared_me > 0,
                       "[L1] read access to the guarded object without holding its mutex");
  }
}

/* ------------------------------------------------------------------ mutex primitives */
void vf_mutex_lock(struct vf_mutex *m)
{
  VF_INC(vf_n_mutex_ops);
  __CPROVER_assert(!m->excl_me && m->shared_me == 0,
                   "[L5] self-deadlock: blocking lock() on a mutex this thread already holds");
  __CPROVER_assert(vf_held < VF_MAX_HELD,
                   "[L5] lock order: library code acquires a second mutex while holding one");
  VF_INC(vf_n_block);
  VF_HOOK_BLOCKING(m);
  VF_INC(vf_n_acq_excl);
  m->excl_me = 1;
  vf_held++;
  VF_HOOK_ACQUIRED(m, 0);
}

_Bool vf_mutex_try_lock_(struct vf_mutex *m)
{
  VF_INC(vf_n_mutex_ops);
  if (m->excl_me || m->shared_me > 0 || vf_nondet_bool()) {
    VF_HOOK_TRY_FAILED(m);
    return 0; /* held by someone (possibly me), or spurious failure */
  }
  VF_INC(vf_n_acq_excl);
  m->excl_me = 1;
  vf_held++;
  VF_HOOK_ACQUIRED(m, 0);
  return 1;
}

_Bool vf_mutex_try_lock(struct vf_mutex *m) { VF_INC(vf_n_try); return vf_mutex_try_lock_(m); }
_Bool vf_mutex_try_lock_timed(struct vf_mutex *m) { VF_INC(vf_n_timed); return vf_mutex_try_lock_(m); }

void vf_mutex_unlock(struct vf_mutex *m)
{
  VF_INC(vf_n_mutex_ops);
  __CPROVER_assert(m->excl_me, "[L2] unlock() of a mutex this thread does not hold exclusively");
  VF_HOOK_RELEASING(m, 0);
  m->excl_me = 0;
  vf_held--;
  VF_INC(vf_n_rel);
  VF_HOOK_RELEASED(m, 0);
}

void vf_mutex_lock_shared(struct vf_mutex *m)
{
  VF_INC(vf_n_mutex_ops);
  __CPROVER_assert(!m->excl_me && m->shared_me == 0,
                   "[L5] self-deadlock: lock_shared() on a mutex this thread already holds");
  __CPROVER_assert(vf_held < VF_MAX_HELD,
                   "[L5] lock order: library code acquires a second mutex while holding one");
  VF_INC(vf_n_block);
  VF_HOOK_BLOCKING(m);
  VF_INC(vf_n_acq_shared);
  m->shared_me = 1;
  vf_held++;
  VF_HOOK_ACQUIRED(m, 1);
}

_Bool vf_mutex_try_lock_shared_(struct vf_mutex *m)
{
  VF_INC(vf_n_mutex_ops);
  if (m->excl_me || m->shared_me > 0 || vf_nondet_bool()) {
    VF_HOOK_TRY_FAILED(m);
    return 0;
  }
  VF_INC(vf_n_acq_shared);
  m->shared_me = 1;
  vf_held++;
  VF_HOOK_ACQUIRED(m, 1);
  return 1;
}
_Bool vf_mutex_try_lock_shared(struct vf_mutex *m) { VF_INC(vf_n_try); return vf_mutex_try_lock_shared_(m); }
_Bool vf_mutex_try_lock_shared_timed(struct vf_mutex *m) { VF_INC(vf_n_timed); return vf_mutex_try_lock_shared_(m); }

void vf_mutex_unlock_shared(struct vf_mutex *m)
{
  VF_INC(vf_n_mutex_ops);
  __CPROVER_assert(m->shared_me > 0, "[L2] unlock_shared() of a mutex this thread does not hold shared");
  VF_HOOK_RELEASING(m, 1);
  m->shared_me = 0;
  vf_held--;
  VF_INC(vf_n_rel);
  VF_HOOK_RELEASED(m, 1);
}

void vf_mutex_ctor(struct vf_mutex *m) { m->excl_me = 0; m->shared_me = 0; }
void vf_mutex_dtor(struct vf_mutex *m)
{
  __CPROVER_assert(!m->excl_me && m->shared_me == 0, "[L2] mutex destroyed while held");
}

/* ------------------------------------------------------------------ unique_lock */
void vf_ulock_ctor(struct vf_lock *l) { l->m = 0; l->owns = 0; }
void vf_ulock_ctor_lock(struct vf_lock *l, struct vf_mutex *m) { l->m = m; l->owns = 0; vf_mutex_lock(m); l->owns = 1; }
void vf_ulock_ctor_try(struct vf_lock *l, struct vf_mutex *m, struct std_try_to_lock_t *t) { l->m = m; l->owns = vf_mutex_try_lock(m); }
void vf_ulock_ctor_defer(struct vf_lock *l, struct vf_mutex *m, struct std_defer_lock_t *t) { l->m = m; l->owns = 0; }
void vf_ulock_ctor_for(struct vf_lock *l, struct vf_mutex *m, struct vf_msec *d) { l->m = m; l->owns = vf_mutex_try_lock_timed(m); }
void vf_ulock_ctor_until(struct vf_lock *l, struct vf_mutex *m, struct vf_tpoint *d) { l->m = m; l->owns = vf_mutex_try_lock_timed(m); }
void vf_ulock_ctor_move(struct vf_lock *l, struct vf_lock *o) { l->m = o->m; l->owns = o->owns; o->m = 0; o->owns = 0; }
void vf_ulock_dtor(struct vf_lock *l) { if (l->owns) { vf_mutex_unlock(l->m); l->owns = 0; } }
struct vf_lock *vf_ulock_assign(struct vf_lock *l, struct vf_lock *o)
{
  if (l->owns) vf_mutex_unlock(l->m);
  l->m = o->m; l->owns = o->owns; o->m = 0; o->owns = 0;
  return l;
}
void vf_ulock_lock(struct vf_lock *l)
{
  __CPROVER_assert(l->m != 0 && !l->owns, "[L2] unique_lock::lock() without mutex or when already owning (std::system_error)");
  vf_mutex_lock(l->m); l->owns = 1;
}
_Bool vf_ulock_try_lock(struct vf_lock *l)
{
  __CPROVER_assert(l->m != 0 && !l->owns, "[L2] unique_lock::try_lock() without mutex or when already owning (std::system_error)");
  l->owns = vf_mutex_try_lock(l->m); return l->owns;
}
_Bool vf_ulock_try_lock_timed(struct vf_lock *l)
{
  __CPROVER_assert(l->m != 0 && !l->owns, "[L2] unique_lock::try_lock_for/until() without mutex or when already owning (std::system_error)");
  l->owns = vf_mutex_try_lock_timed(l->m); return l->owns;
}
void vf_ulock_unlock(struct vf_lock *l)
{
  __CPROVER_assert(l->owns, "[L2] unique_lock::unlock() when not owning (std::system_error)");
  vf_mutex_unlock(l->m); l->owns = 0;
}
_Bool vf_lock_owns(struct vf_lock *l) { return l->owns; }
struct vf_mutex *vf_lock_mutex(struct vf_lock *l) { return l->m; }
void vf_lock_swap(struct vf_lock *a, struct vf_lock *b) { struct vf_lock t = *a; *a = *b; *b = t; }      /* no mutex operation */
struct vf_mutex *vf_lock_release(struct vf_lock *l) { struct vf_mutex *m = l->m; l->m = 0; l->owns = 0; return m; }   /* gives up ownership WITHOUT unlocking */

/* ------------------------------------------------------------------ shared_lock */
void vf_slock_ctor(struct vf_lock *l) { l->m = 0; l->owns = 0; }
void vf_slock_ctor_lock(struct vf_lock *l, struct vf_mutex *m) { l->m = m; l->owns = 0; vf_mutex_lock_shared(m); l->owns = 1; }
void vf_slock_ctor_try(struct vf_lock *l, struct vf_mutex *m, struct std_try_to_lock_t *t) { l->m = m; l->owns = vf_mutex_try_lock_shared(m); }
void vf_slock_ctor_defer(struct vf_lock *l, struct vf_mutex *m, struct std_defer_lock_t *t) { l->m = m; l->owns = 0; }
void vf_slock_ctor_for(struct vf_lock *l, struct vf_mutex *m, struct vf_msec *d) { l->m = m; l->owns = vf_mutex_try_lock_shared_timed(m); }
void vf_slock_ctor_until(struct vf_lock *l, struct vf_mutex *m, struct vf_tpoint *d) { l->m = m; l->owns = vf_mutex_try_lock_shared_timed(m); }
void vf_slock_ctor_move(struct vf_lock *l, struct vf_lock *o) { l->m = o->m; l->owns = o->owns; o->m = 0; o->owns = 0; }
void vf_slock_dtor(struct vf_lock *l) { if (l->owns) { vf_mutex_unlock_shared(l->m); l->owns = 0; } }
struct vf_lock *vf_slock_assign(struct vf_lock *l, struct vf_lock *o)
{
  if (l->owns) vf_mutex_unlock_shared(l->m);
  l->m = o->m; l->owns = o->owns; o->m = 0; o->owns = 0;
  return l;
}
void vf_slock_lock(struct vf_lock *l)
{
  __CPROVER_assert(l->m != 0 && !l->owns, "[L2] shared_lock::lock() without mutex or when already owning (std::system_error)");
  vf_mutex_lock_shared(l->m); l->owns = 1;
}
_Bool vf_slock_try_lock(struct vf_lock *l)
{
  __CPROVER_assert(l->m != 0 && !l->owns, "[L2] shared_lock::try_lock() without mutex or when already owning (std::system_error)");
  l->owns = vf_mutex_try_lock_shared(l->m); return l->owns;
}
_Bool vf_slock_try_lock_timed(struct vf_lock *l)
{
  __CPROVER_assert(l->m != 0 && !l->owns, "[L2] shared_lock::try_lock_for/until() without mutex or when already owning (std::system_error)");
  l->owns = vf_mutex_try_lock_shared_timed(l->m); return l->owns;
}
void vf_slock_unlock(struct vf_lock *l)
{
  __CPROVER_assert(l->owns, "[L2] shared_lock::unlock() when not owning (std::system_error)");
  vf_mutex_unlock_shared(l->m); l->owns = 0;
}

/* ------------------------------------------------------------------ lock_guard */
void vf_guard_ctor(struct vf_lock *l, struct vf_mutex *m) { l->m = m; l->owns = 0; vf_mutex_lock(m); l->owns = 1; }
void vf_guard_dtor(struct vf_lock *l) { vf_mutex_unlock(l->m); l->owns = 0; }

/* ------------------------------------------------------------------ condition_variable */
void vf_cv_wait(struct vf_cv *c, struct vf_lock *l)
{
  __CPROVER_assert(l->owns && l->m != 0 && l->m->excl_me, "[M5] condition_variable::wait with a lock that is not held");
  VF_INC(vf_n_block);
  VF_INC(vf_n_cvwait);
  VF_HOOK_CV_WAIT(c, l);
  VF_HOOK_RELEASING(l->m, 0);
  l->m->excl_me = 0;
  VF_HOOK_RELEASED(l->m, 0);
  /* ... blocked; may also wake spuriously: nothing is assumed about why we return ... */
  l->m->excl_me = 1;
  VF_HOOK_ACQUIRED(l->m, 0);
}
/* returns 1 = timeout */
int vf_cv_wait_timed(struct vf_cv *c, struct vf_lock *l)
{
  __CPROVER_assert(l->owns && l->m != 0 && l->m->excl_me, "[M5] condition_variable::wait_for/until with a lock that is not held");
  VF_INC(vf_n_timed);
  VF_INC(vf_n_cvwait);
  VF_HOOK_CV_WAIT(c, l);
  VF_HOOK_RELEASING(l->m, 0);
  l->m->excl_me = 0;
  VF_HOOK_RELEASED(l->m, 0);
  l->m->excl_me = 1;
  VF_HOOK_ACQUIRED(l->m, 0);
  return vf_nondet_bool();
}
void vf_cv_notify_all(struct vf_cv *c) { VF_INC(vf_n_notify); VF_HOOK_NOTIFY(c, 1); }
void vf_cv_notify_one(struct vf_cv *c) { VF_INC(vf_n_notify); VF_HOOK_NOTIFY(c, 0); }

void std_this_thread_yield(void) { VF_INC(vf_n_yield); VF_HOOK_YIELD(); }

/* ------------------------------------------------------------------ atomics (sequentially consistent) */
int vf_aint_load(struct vf_atomic_int *a, int mo)
{
  VF_HOOK_ATOMIC_PRE(a);
  int r = a->v;
  VF_HOOK_ATOMIC_READ(a, r, mo);
  VF_HOOK_ATOMIC_POST(a);
  return r;
}
void vf_aint_store(struct vf_atomic_int *a, int v, int mo)
{
  VF_HOOK_ATOMIC_PRE(a);
  int o = a->v;
  a->v = v;
  VF_HOOK_ATOMIC_WRITE(a, o, v, mo, 0);
  VF_HOOK_ATOMIC_POST(a);
}
int vf_aint_fetch_add(struct vf_atomic_int *a, int d, int mo)
{
  VF_HOOK_ATOMIC_PRE(a);
  int o = a->v;
  __CPROVER_assert((d >= 0 ? o <= 2147483647 - d : o >= -2147483647 - 1 - d), "[arith] atomic<int> overflow");
  a->v = o + d;
  VF_HOOK_ATOMIC_WRITE(a, o, o + d, mo, 1);
  VF_HOOK_ATOMIC_POST(a);
  return o;
}
int vf_aint_exchange(struct vf_atomic_int *a, int v, int mo)
{
  VF_HOOK_ATOMIC_PRE(a);
  int o = a->v;
  a->v = v;
  VF_HOOK_ATOMIC_WRITE(a, o, v, mo, 1);
  VF_HOOK_ATOMIC_POST(a);
  return o;
}
#define vf_aint_preinc(a) (vf_aint_fetch_add(a, 1, VF_MO_SEQ_CST) + 1)
#define vf_aint_predec(a) (vf_aint_fetch_add(a, -1, VF_MO_SEQ_CST) - 1)
#define vf_aint_postinc(a) vf_aint_fetch_add(a, 1, VF_MO_SEQ_CST)
#define vf_aint_postdec(a) vf_aint_fetch_add(a, -1, VF_MO_SEQ_CST)

/* the same model for the other integral atomic types (a type change of a counter is a plausible
   edit): unsigned arithmetic wraps (defined behaviour), signed arithmetic must not overflow */
#define VF_ATOMIC_MODEL(N, T, IS_SIGNED, TMIN, TMAX) \
T vf_a_##N##_load(struct vf_atomic_##N *a, int mo) \
{ VF_HOOK_ATOMIC_PRE(a); T r = a->v; VF_HOOK_ATOMIC_READ(a, r, mo); VF_HOOK_ATOMIC_POST(a); return r; } \
void vf_a_##N##_store(struct vf_atomic_##N *a, T v, int mo) \
{ VF_HOOK_ATOMIC_PRE(a); T o = a->v; a->v = v; VF_HOOK_ATOMIC_WRITE(a, o, v, mo, 0); VF_HOOK_ATOMIC_POST(a); } \
T vf_a_##N##_fetch_add(struct vf_atomic_##N *a, long d, int mo) \
{ VF_HOOK_ATOMIC_PRE(a); T o = a->v; \
  if (IS_SIGNED) __CPROVER_assert((long)o + d >= (long)(TMIN) && (long)o + d <= (long)(TMAX), "[arith] atomic integer overflow"); \
  T nv = (T)vf_s2u_64((long)o + d); a->v = nv; \
  VF_HOOK_ATOMIC_WRITE(a, o, nv, mo, 1); VF_HOOK_ATOMIC_POST(a); return o; } \
T vf_a_##N##_exchange(struct vf_atomic_##N *a, T v, int mo) \
{ VF_HOOK_ATOMIC_PRE(a); T o = a->v; a->v = v; VF_HOOK_ATOMIC_WRITE(a, o, v, mo, 1); VF_HOOK_ATOMIC_POST(a); return o; } \
T vf_a_##N##_assign(struct vf_atomic_##N *a, T v) { vf_a_##N##_store(a, v, VF_MO_SEQ_CST); return v; }
#pragma CPROVER check push
#pragma CPROVER check disable "conversion"
VF_ATOMIC_MODEL(unsigned_short, unsigned short, 0, 0, 65535)
VF_ATOMIC_MODEL(short, short, 1, -32768, 32767)
VF_ATOMIC_MODEL(unsigned_char, unsigned char, 0, 0, 255)
VF_ATOMIC_MODEL(signed_char, signed char, 1, -128, 127)
VF_ATOMIC_MODEL(unsigned_int, unsigned int, 0, 0, 4294967295L)
VF_ATOMIC_MODEL(long, long, 1, (-9223372036854775807L - 1), 9223372036854775807L)
VF_ATOMIC_MODEL(unsigned_long, unsigned long, 0, 0, 0)
#pragma CPROVER check pop

_Bool vf_abool_load(struct vf_atomic_bool *a, int mo)
{
  VF_HOOK_ATOMIC_PRE(a);
  _Bool r = a->v;
  VF_HOOK_ATOMIC_READ(a, r, mo);
  VF_HOOK_ATOMIC_POST(a);
  return r;
}
void vf_abool_store(struct vf_atomic_bool *a, _Bool v, int mo)
{
  VF_HOOK_ATOMIC_PRE(a);
  _Bool o = a->v;
  a->v = v;
  VF_HOOK_ATOMIC_WRITE(a, o, v, mo, 0);
  VF_HOOK_ATOMIC_POST(a);
}
_Bool vf_abool_exchange(struct vf_atomic_bool *a, _Bool v, int mo)
{
  VF_HOOK_ATOMIC_PRE(a);
  _Bool o = a->v;
  a->v = v;
  VF_HOOK_ATOMIC_WRITE(a, o, v, mo, 1);
  VF_HOOK_ATOMIC_POST(a);
  return o;
}
_Bool vf_abool_assign(struct vf_atomic_bool *a, _Bool v) { vf_abool_store(a, v, VF_MO_SEQ_CST); return v; }
int vf_aint_assign(struct vf_atomic_int *a, int v) { vf_aint_store(a, v, VF_MO_SEQ_CST); return v; }

/* ------------------------------------------------------------------ abstract payload T and user functors
 * Every call is user code: it needs the access right it uses (Scheme L1), runs an environment
 * step, and may throw at any invocation (C20's quantifier). */
void vf_payload__ctor(struct vf_payload *self)
{
  VF_HOOK_USER();
  if (vf_nondet_bool()) { vf_exc = 1; vf_user_threw = 1; return; }
  self->v = 0; self->life = VF_LIVE; self->guard = 0; self->torn = 0;
}
void vf_payload__ctor_copy(struct vf_payload *self, struct vf_payload *o)
{
  __CPROVER_assert(o->life == VF_LIVE, "[life] copy from an object that is not alive");
  VF_ACCESS(o, 0);
  VF_HOOK_USER();
  if (vf_nondet_bool()) { vf_exc = 1; vf_user_threw = 1; return; }
  self->v = o->v; self->life = VF_LIVE; self->guard = 0; self->torn = o->torn;
}
void vf_payload__ctor_move(struct vf_payload *self, struct vf_payload *o)
{
  __CPROVER_assert(o->life == VF_LIVE, "[life] move from an object that is not alive");
  VF_ACCESS(o, 1);
  VF_HOOK_USER();
  if (vf_nondet_bool()) { vf_exc = 1; vf_user_threw = 1; return; }
  self->v = o->v; self->life = VF_LIVE; self->guard = 0; self->torn = o->torn;
}
struct vf_payload *vf_payload__op_assign__1(struct vf_payload *self, struct vf_payload *o)
{
  __CPROVER_assert(self->life == VF_LIVE && o->life == VF_LIVE, "[life] assignment involving an object that is not alive");
  VF_ACCESS(self, 1);
  VF_ACCESS(o, 0);
  VF_HOOK_USER();
  if (vf_nondet_bool()) { vf_exc = 1; vf_user_threw = 1; vf_assign_threw = 1; self->torn = vf_nondet_bool() ? 1 : self->torn; return self; }
  self->v = o->v; self->torn = o->torn;
  return self;
}
_Bool vf_payload__op_eq__1(struct vf_payload *self, struct vf_payload *o)
{
  __CPROVER_assert(self->life == VF_LIVE && o->life == VF_LIVE, "[life] comparison involving an object that is not alive");
  VF_ACCESS(self, 0);
  VF_ACCESS(o, 0);
  VF_HOOK_USER();
  if (vf_nondet_bool()) { vf_exc = 1; vf_user_threw = 1; return 0; }
  return self->v == o->v;
}
void vf_payload__dtor(struct vf_payload *self)
{
  __CPROVER_assert(self->life == VF_LIVE, "[life] destructor of an object that is not alive (double destroy / never constructed)");
  self->life = VF_DEAD;
}
void vf_payload_swap(struct vf_payload *a, struct vf_payload *b)
{
  /* std::swap<T>: move-construct a temporary, two move-assignments */
  __CPROVER_assert(a->life == VF_LIVE && b->life == VF_LIVE, "[life] swap involving an object that is not alive");
  VF_ACCESS(a, 1);
  VF_ACCESS(b, 1);
  VF_HOOK_USER();
  if (vf_nondet_bool()) { vf_exc = 1; vf_user_threw = 1; return; }
  int t = a->v; a->v = b->v; b->v = t;
  int tt = a->torn; a->torn = b->torn; b->torn = tt;
}

int vf_user_effect(struct vf_payload *p, int write)
{
  __CPROVER_assert(p->life == VF_LIVE, "[life] user functor applied to an object that is not alive");
  VF_HOOK_FUNCTOR(p, write);
  VF_ACCESS(p, write);
  VF_HOOK_USER();
  if (write) {
    if (vf_nondet_bool()) { vf_exc = 1; vf_user_threw = 1; p->v = vf_nondet_int(); p->torn = 1; return 0; }
    p->v = VF_USER_WRITE_VALUE(p);
  } else {
    if (vf_nondet_bool()) { vf_exc = 1; vf_user_threw = 1; return 0; }
  }
  return vf_nondet_int();
}
void vf_fn_void__op_call__1(struct vf_fn_void *f, struct vf_payload *p) { (void)vf_user_effect(p, 1); }
int vf_fn_val__op_call__1(struct vf_fn_val *f, struct vf_payload *p) { return vf_user_effect(p, 1); }
void vf_cfn_void__op_call__1(struct vf_cfn_void *f, struct vf_payload *p) { (void)vf_user_effect(p, 0); }
int vf_cfn_val__op_call__1(struct vf_cfn_val *f, struct vf_payload *p) { return vf_user_effect(p, 0); }
