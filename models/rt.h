/* Trusted run-time models (DESIGN.md section 5): types.  Everything here is an *assumed
 * contract on a dependency*: hand-written, sequentially consistent, with ghost state.  The
 * lowered repo code is linked against these; nothing in this file is counted as proved. */
#ifndef VF_RT_H
#define VF_RT_H
#include <stddef.h>

#define VF_BIG 100000

int vf_exc;                       /* != 0: a C++ exception is in flight */
_Bool vf_user_threw;              /* ghost: some invocation of user code threw during the verified call */
_Bool vf_assign_threw;            /* ghost: a payload assignment threw (state of its target is T's business) */
_Bool vf_nondet_bool(void) { int x; return x != 0; }
int vf_nondet_int(void) { int x; return x; }
unsigned long vf_nondet_ulong(void) { unsigned long x; return x; }

/* signed -> unsigned conversion is defined (modular) in C++; the lowering routes it through these
   so that CBMC's --conversion-check does not report it */
#pragma CPROVER check push
#pragma CPROVER check disable "conversion"
unsigned long vf_s2u_64(long x) { return (unsigned long)x; }
unsigned int vf_s2u_32(long x) { return (unsigned int)(unsigned long)x; }
#pragma CPROVER check pop

/* ---- memory orders --------------------------------------------------------------- */
#define VF_MO_RELAXED 0
#define VF_MO_CONSUME 1
#define VF_MO_ACQUIRE 2
#define VF_MO_RELEASE 3
#define VF_MO_ACQ_REL 4
#define VF_MO_SEQ_CST 5
#define VF_DEFAULT_MO 6           /* defaulted argument: seq_cst, but told apart in the AST */
#define vf_e_memory_order_relaxed VF_MO_RELAXED
#define vf_e_memory_order_consume VF_MO_CONSUME
#define vf_e_memory_order_acquire VF_MO_ACQUIRE
#define vf_e_memory_order_release VF_MO_RELEASE
#define vf_e_memory_order_acq_rel VF_MO_ACQ_REL
#define vf_e_memory_order_seq_cst VF_MO_SEQ_CST
const int vf_g_memory_order_relaxed = VF_MO_RELAXED;
const int vf_g_memory_order_consume = VF_MO_CONSUME;
const int vf_g_memory_order_acquire = VF_MO_ACQUIRE;
const int vf_g_memory_order_release = VF_MO_RELEASE;
const int vf_g_memory_order_acq_rel = VF_MO_ACQ_REL;
const int vf_g_memory_order_seq_cst = VF_MO_SEQ_CST;

/* ---- tag types, durations -------------------------------------------------------- */
struct std_try_to_lock_t { char vf_empty; };
struct std_defer_lock_t { char vf_empty; };
struct std_adopt_lock_t { char vf_empty; };
struct std_try_to_lock_t vf_g_try_to_lock;
struct std_defer_lock_t vf_g_defer_lock;
struct std_adopt_lock_t vf_g_adopt_lock;
struct vf_msec { long ticks; };
struct vf_tpoint { long ticks; };

/* ---- mutexes (all four std mutex types share one model; see names.h) ---------------- */
struct vf_payload;
struct vf_mutex {
  _Bool excl_me;                  /* ghost: this thread holds it exclusively */
  int shared_me;                  /* ghost: shared holds by this thread */
  struct vf_payload *guards;      /* ghost protection map: the object this mutex protects */
};
/* unique_lock / shared_lock / lock_guard */
struct vf_lock {
  struct vf_mutex *m;
  _Bool owns;
};
struct vf_cv { char vf_empty; };

/* ghost bookkeeping of the calling thread */
int vf_held;                      /* locks currently held by this thread */
int vf_n_acq_excl;                /* exclusive acquisitions performed (blocking or successful try) */
int vf_n_acq_shared;              /* shared acquisitions performed */
int vf_n_rel;                     /* releases performed */
int vf_n_block;                   /* calls that may block without bound (lock, cv.wait) */
int vf_n_timed;                   /* calls that may block up to a caller-given time */
int vf_n_try;                     /* non-blocking attempts */
int vf_n_cvwait;                  /* condition-variable waits */
int vf_n_yield;                   /* yield / sleep calls */
int vf_n_mutex_ops;               /* any operation on any mutex */
int vf_n_notify;                  /* notify_one/notify_all calls */
int vf_cs_entry_v;                /* ghost: abstract value of the guarded object when the current
                                     critical section was entered */

/* ---- atomics ------------------------------------------------------------------------- */
struct vf_atomic_int { int v; };
struct vf_atomic_bool { _Bool v; };
struct vf_atomic_ptr { void *v; };
struct vf_atomic_unsigned_short { unsigned short v; };
struct vf_atomic_short { short v; };
struct vf_atomic_unsigned_char { unsigned char v; };
struct vf_atomic_signed_char { signed char v; };
struct vf_atomic_unsigned_int { unsigned int v; };
struct vf_atomic_long { long v; };
struct vf_atomic_unsigned_long { unsigned long v; };

/* ---- abstract payload (user type T) -------------------------------------------------- */
#define VF_RAW 0
#define VF_LIVE 1
#define VF_DEAD 2
struct vf_payload {
  int v;                          /* ghost: abstract value */
  int life;                       /* ghost: VF_RAW / VF_LIVE / VF_DEAD */
  struct vf_mutex *guard;         /* ghost: mutex that protects this object (0 = unguarded) */
  int torn;                       /* ghost: a throwing mutation left it half-written */
};
/* abstract functors */
struct vf_fn_void { char vf_empty; };
struct vf_fn_val { char vf_empty; };
struct vf_cfn_void { char vf_empty; };
struct vf_cfn_val { char vf_empty; };

#endif
