"""Unit `rcu`: rcu_list.hpp + rcu_guarded.hpp for rcu_list<payload, std::mutex, std::allocator>.
C05 (no reclamation under a live handle), C12 (consistent traversals, serialised writers),
C13 (everything destroyed and freed exactly once), C14 (reads never wait for writers)."""
from _common import GHOST_BOUNDS, GHOST_ASSIGNS, CNT_R, CNT_G, CNT_OK

L = 'rcu_list_vf_payload_std_mutex_std_allocator_vf_payload'
NODE = L + '_node'
ZN = L + '_zombie_list_node'
GUARD = L + '_rcu_guard'
IT = L + '_iterator'
CIT = L + '_const_iterator'
DEALLOC = 'detail_deallocator_std_allocator_rcu_list_vf_payload_node'
UPN = 'std_unique_ptr_rcu_list_vf_payload_node_detail_deallocator_std_allocator_rcu_list_vf_payload_node'
AT = 'std_allocator_traits_std_allocator_rcu_list_vf_payload_'
SZ = 'std_allocator_traits_std_allocator_type_parameter_0_0_size_type'
D = dict(L=L, NODE=NODE, ZN=ZN, GUARD=GUARD, DEALLOC=DEALLOC, UPN=UPN, AT=AT, SZ=SZ)

NAMES = r'''
struct vf_atomic_ptr_ { void *v; };
struct std_allocator_rcu_list_vf_payload_node { char vf_empty; };
struct std_allocator_rcu_list_vf_payload_zombie_list_node { char vf_empty; };
struct %(UPN)s;
''' % D
for _k in ('node', 'zombie_list_node', 'rcu_guard'):
    A = 'std_atomic_rcu_list_vf_payload_' + _k
    NAMES += '#define %s vf_atomic_ptr_\n' % A
    NAMES += '#define %s__load__1(a, mo) vf_aptr_load(a, mo)\n' % A
    NAMES += '#define %s__store__2(a, x, mo) vf_aptr_store(a, (void *)(x), mo)\n' % A
    NAMES += '#define %s__op_assign__1(a, x) vf_aptr_store(a, (void *)(x), VF_MO_SEQ_CST)\n' % A
    NAMES += '#define %s__ctor__pointer_type(a, x) ((a)->v = (void *)(x))\n' % A
    NAMES += '#define %s__compare_exchange_weak__3(a, e, d, mo) vf_aptr_cas_weak(a, (void **)(e), (void *)(d), mo)\n' % A
    NAMES += '#define %s__exchange__2(a, x, mo) vf_aptr_exchange(a, (void *)(x), mo)\n' % A
    NAMES += '#define %s__compare_exchange_strong__3(a, e, d, mo) vf_aptr_cas_strong(a, (void **)(e), (void *)(d), mo)\n' % A
    NAMES += '#define %s__dtor(a) ((void)0)\n' % A
NAMES += r'''
#define ext_static_allocate__%(AT)snode_allocator_type_ref_%(SZ)s(al, n) ((struct %(NODE)s *)vf_alloc(sizeof(struct %(NODE)s), 1))
#define ext_static_allocate__%(AT)szombie_list_node_allocator_type_ref_%(SZ)s(al, n) ((struct %(ZN)s *)vf_alloc(sizeof(struct %(ZN)s), 2))
#define ext_static_construct__%(AT)snode_allocator_type_ref_rcu_list_vf_payload_node_ptr_vf_payload_rref(al, p, a) vf_construct_node_move(p, a)
#define ext_static_construct__%(AT)snode_allocator_type_ref_rcu_list_vf_payload_node_ptr_vf_payload_ref(al, p, a) vf_construct_node_copy(p, a)
#define ext_static_construct__%(AT)szombie_list_node_allocator_type_ref_rcu_list_vf_payload_zombie_list_node_ptr_rcu_list_vf_payload_node_ref(al, p, a) %(ZN)s__ctor__rcu_list_vf_payload_node_ptr(p, *(a))
#define ext_static_construct__%(AT)szombie_list_node_allocator_type_ref_rcu_list_vf_payload_zombie_list_node_ptr_rcu_list_vf_payload_rcu_guard_rref(al, p, a) %(ZN)s__ctor__rcu_list_vf_payload_rcu_guard_ptr(p, *(a))
#define ext_static_destroy__%(AT)snode_allocator_type_ref_rcu_list_vf_payload_node_ptr(al, p) vf_destroy_node(p)
#define ext_static_destroy__%(AT)szombie_list_node_allocator_type_ref_rcu_list_vf_payload_zombie_list_node_ptr(al, p) vf_destroy_record(p)
#define ext_static_deallocate__%(AT)snode_allocator_type_ref_%(AT)snode_pointer_%(SZ)s(al, p, n) vf_dealloc(p, 1)
#define ext_static_deallocate__%(AT)szombie_list_node_allocator_type_ref_%(AT)szombie_list_node_pointer_%(SZ)s(al, p, n) vf_dealloc(p, 2)
#define %(UPN)s__ctor__pointer_enable_if_t_is_lvalue_reference_deallocator_std_allocator_node_value_detail_deallocator_std_allocator_rcu_list_vf_payload_node vf_upn_ctor
#define %(UPN)s__get__0(u) ((u)->p)
#define %(UPN)s__op_arrow__0(u) ((u)->p)
#define %(UPN)s__release__0 vf_upn_release
#define %(UPN)s__dtor vf_upn_dtor
''' % D

GHOST = GHOST_BOUNDS + r'''
struct %(L)s *vf_LST;             /* the list under verification */
/* ---- ghost bookkeeping ---- */
int g_node_allocs, g_node_frees, g_rec_allocs, g_rec_frees, g_node_destroys, g_node_constructs;
struct %(NODE)s *g_new;           /* node allocated by the verified call */
struct %(ZN)s *g_newrec;          /* log record allocated by the verified call */
_Bool g_published;                /* g_new has been made reachable for readers */
_Bool g_rec_published;            /* g_newrec has been pushed on the log */
int g_rec_pushes;                 /* successful pushes on the log by the verified call */
struct %(NODE)s *g_victim;        /* node being erased */
_Bool g_unlinked;                 /* the victim was taken off the forward chain */
int g_chain_stores;               /* stores on the forward chain (m_head / next of a reachable node) */
int g_list_reads;                 /* atomic loads of m_head / m_tail / node links */
int g_log_reads;
int g_cas_fail;                   /* failed CAS attempts */
int g_atomic_ops;
int g_owner_clears;               /* stores of nullptr to an owner field */
_Bool g_next_written;             /* own record's next was written (during unlock) */
struct %(ZN)s *g_own;             /* the verified guard's own record (unlock) */
_Bool g_scan_saw_owned;           /* the scan in unlock met an owned record */
int g_after_owner_clear;          /* atomic operations after the owner was cleared */
#define IS_NODE_LINK(a) 0

void *vf_alloc(unsigned long size, int what)
{
  if (vf_nondet_bool()) { vf_exc = 1; return (void *)0; }     /* std::bad_alloc */
  void *p = __CPROVER_allocate(size, 0);
  __CPROVER_assume(p != (void *)0);
  if (what == 1) { g_node_allocs = g_node_allocs + 1; g_new = (struct %(NODE)s *)p; g_new->data.life = VF_RAW; }
  else { g_rec_allocs = g_rec_allocs + 1; g_newrec = (struct %(ZN)s *)p; }
  return p;
}
void vf_dealloc(void *p, int what)
{
  __CPROVER_assert(p != (void *)0, "[C13] deallocate of a null pointer (an object that was never allocated)");
  if (what == 1) {
    __CPROVER_assert(((struct %(NODE)s *)p)->data.life != VF_LIVE, "[C13] node storage released while its element is still constructed (never destroyed)");
    g_node_frees = g_node_frees + 1;
  } else {
    __CPROVER_assert((struct %(ZN)s *)p != g_own, "[C05] a guard frees its own log record");
    g_rec_frees = g_rec_frees + 1;
  }
  __CPROVER_deallocate(p);
}
void %(NODE)s__ctor__vf_payload_rref_T_(struct %(NODE)s *self, struct vf_payload *vs);
void %(NODE)s__ctor__vf_payload_ref_T_(struct %(NODE)s *self, struct vf_payload *vs);
void %(NODE)s__dtor(struct %(NODE)s *self);
void vf_construct_node_move(struct %(NODE)s *p, struct vf_payload *a) { %(NODE)s__ctor__vf_payload_rref_T_(p, a); if (!vf_exc) g_node_constructs = g_node_constructs + 1; }
void vf_construct_node_copy(struct %(NODE)s *p, struct vf_payload *a) { %(NODE)s__ctor__vf_payload_ref_T_(p, a); if (!vf_exc) g_node_constructs = g_node_constructs + 1; }
void vf_destroy_node(struct %(NODE)s *p)
{
  __CPROVER_assert(p != (struct %(NODE)s *)0, "[C13] destroy() of a null node pointer: a log record that carries no erased node is treated as one");
  %(NODE)s__dtor(p);
  g_node_destroys = g_node_destroys + 1;
}
void vf_destroy_record(struct %(ZN)s *p) { (void)p; /* trivial destructor */ }

/* ---- atomics of pointer type (sequentially consistent) with the unit's hooks ---- */
void vf_rcu_env(struct vf_atomic_ptr_ *a);
void vf_rcu_loaded(struct vf_atomic_ptr_ *a, void *v);
void vf_rcu_store(struct vf_atomic_ptr_ *a, void *o, void *n);
void vf_rcu_cas(struct vf_atomic_ptr_ *a, void *expected, void *desired, _Bool ok);
void *vf_aptr_load(struct vf_atomic_ptr_ *a, int mo)
{
  vf_rcu_env(a);
  if (g_atomic_ops < VF_BIG) g_atomic_ops = g_atomic_ops + 1;
  void *r = a->v;
  vf_rcu_loaded(a, r);
  return r;
}
void *vf_aptr_store(struct vf_atomic_ptr_ *a, void *x, int mo)
{
  vf_rcu_env(a);
  if (g_atomic_ops < VF_BIG) g_atomic_ops = g_atomic_ops + 1;
  void *o = a->v;
  vf_rcu_store(a, o, x);
  a->v = x;
  return x;
}
_Bool vf_aptr_cas_weak(struct vf_atomic_ptr_ *a, void **expected, void *desired, int mo)
{
  vf_rcu_env(a);
  if (g_atomic_ops < VF_BIG) g_atomic_ops = g_atomic_ops + 1;
  if (a->v == *expected && vf_nondet_bool()) {       /* weak: may also fail spuriously */
    vf_rcu_cas(a, *expected, desired, 1);
    a->v = desired;
    return 1;
  }
  vf_rcu_cas(a, *expected, desired, 0);
  *expected = a->v;
  if (g_cas_fail < VF_BIG) g_cas_fail = g_cas_fail + 1;
  return 0;
}
void *vf_aptr_exchange(struct vf_atomic_ptr_ *a, void *x, int mo)
{
  vf_rcu_env(a);
  if (g_atomic_ops < VF_BIG) g_atomic_ops = g_atomic_ops + 1;
  void *o = a->v;
  vf_rcu_loaded(a, o);
  vf_rcu_store(a, o, x);
  a->v = x;
  return o;
}
_Bool vf_aptr_cas_strong(struct vf_atomic_ptr_ *a, void **expected, void *desired, int mo)
{
  vf_rcu_env(a);
  if (g_atomic_ops < VF_BIG) g_atomic_ops = g_atomic_ops + 1;
  if (a->v == *expected) {
    vf_rcu_cas(a, *expected, desired, 1);
    a->v = desired;
    return 1;
  }
  vf_rcu_cas(a, *expected, desired, 0);
  *expected = a->v;
  if (g_cas_fail < VF_BIG) g_cas_fail = g_cas_fail + 1;
  return 0;
}
/* the log head changes whenever another thread registers or erases: arbitrary other record */
struct %(ZN)s vf_env_rec;
_Bool g_env_off;                  /* the list is being destroyed: no other thread uses it any more */
struct %(NODE)s vf_hn, vf_tn, vf_mid;    /* the list nodes a writer can touch (harness) */
struct %(L)s vf_list;                 /* the list behind a handle (harness) */
void vf_rcu_env(struct vf_atomic_ptr_ *a)
{
  if (!g_env_off && vf_LST != 0 && a == (struct vf_atomic_ptr_ *)&vf_LST->m_zombie_head && !g_rec_published && vf_nondet_bool())
    vf_LST->m_zombie_head.v = vf_nondet_bool() ? (void *)&vf_env_rec : (void *)0;
}
void vf_rcu_loaded(struct vf_atomic_ptr_ *a, void *v)
{
  if (g_owner_clears > 0) if (g_after_owner_clear < VF_BIG) g_after_owner_clear = g_after_owner_clear + 1;
  if (vf_LST != 0 && (a == (struct vf_atomic_ptr_ *)&vf_LST->m_head || a == (struct vf_atomic_ptr_ *)&vf_LST->m_tail)) if (g_list_reads < VF_BIG) g_list_reads = g_list_reads + 1;
  if (vf_LST != 0 && a == (struct vf_atomic_ptr_ *)&vf_LST->m_zombie_head) if (g_log_reads < VF_BIG) g_log_reads = g_log_reads + 1;
}
void vf_rcu_store(struct vf_atomic_ptr_ *a, void *o, void *n)
{
  if (g_owner_clears > 0) if (g_after_owner_clear < VF_BIG) g_after_owner_clear = g_after_owner_clear + 1;
  /* ---- publication of a new node (push / emplace) ---- */
  if (g_new != 0) {
    if (a == (struct vf_atomic_ptr_ *)&g_new->next)
      __CPROVER_assert(!g_published, "[C12] the next pointer of a node is changed after the node was published to readers");
    _Bool chain = (vf_LST != 0 && a == (struct vf_atomic_ptr_ *)&vf_LST->m_head) ||
                  (vf_LST != 0 && vf_LST->m_tail.v != 0 && a == (struct vf_atomic_ptr_ *)&((struct %(NODE)s *)vf_LST->m_tail.v)->next && vf_LST->m_tail.v != (void *)g_new);
    if (chain && n == (void *)g_new && !g_published) {
      __CPROVER_assert(g_new->data.life == VF_LIVE, "[C12] a node is published before its element is constructed");
      g_published = 1;
    }
  }
  /* ---- erase ---- */
  if (g_victim != 0) {
    __CPROVER_assert(a != (struct vf_atomic_ptr_ *)&g_victim->next, "[C12] erase modifies the erased node's own next pointer (a traversal standing on it would be cut off)");
    _Bool chain = (vf_LST != 0 && a == (struct vf_atomic_ptr_ *)&vf_LST->m_head) ||
                  (g_victim->back.v != 0 && a == (struct vf_atomic_ptr_ *)&((struct %(NODE)s *)g_victim->back.v)->next);
    if (chain) {
      g_chain_stores = g_chain_stores + 1;
      __CPROVER_assert(n == g_victim->next.v, "[C12] erase redirects the forward chain to something other than the erased node's successor");
      g_unlinked = 1;
    }
  }
  /* ---- release of a guard (unlock) ---- */
  if (g_own != 0) {
    if (a == (struct vf_atomic_ptr_ *)&g_own->next) g_next_written = 1;
    if (a == (struct vf_atomic_ptr_ *)&g_own->owner) {
      __CPROVER_assert(n == (void *)0, "[C05] unlock stores a non-null owner");
      g_owner_clears = g_owner_clears + 1;
    }
  }
}
void vf_rcu_cas(struct vf_atomic_ptr_ *a, void *expected, void *desired, _Bool ok)
{
  if (vf_LST != 0 && a == (struct vf_atomic_ptr_ *)&vf_LST->m_zombie_head && ok) {
    __CPROVER_assert(desired == (void *)g_newrec && g_newrec != 0, "[C05] something other than the record allocated by this call is pushed on the log");
    __CPROVER_assert(g_newrec->next.v == expected, "[C05] the pushed record's next is not the head value the successful CAS validated");
    if (g_victim != 0) {
      __CPROVER_assert(g_unlinked, "[C05] the erased node is logged before it was unlinked (a reader registering now could still reach a node that is already reclaimable)");
      __CPROVER_assert(g_newrec->zombie_node == g_victim && g_newrec->owner.v == (void *)0, "[C05] the log record of an erase does not carry exactly the erased node");
    }
    g_rec_published = 1;
    g_rec_pushes = g_rec_pushes + 1;
  }
}

/* ---- model of std::unique_ptr<node, detail::deallocator<node_alloc_t>> (trusted) ---- */
struct %(UPN)s { struct %(NODE)s *p; struct %(DEALLOC)s d; };
void %(DEALLOC)s__ctor_move(struct %(DEALLOC)s *self, struct %(DEALLOC)s *o);
void %(DEALLOC)s__op_call(struct %(DEALLOC)s *self, struct %(NODE)s *p);
void vf_upn_ctor(struct %(UPN)s *u, struct %(NODE)s *p, struct %(DEALLOC)s *d) { u->p = p; %(DEALLOC)s__ctor_move(&u->d, d); }
struct %(NODE)s *vf_upn_release(struct %(UPN)s *u) { struct %(NODE)s *r = u->p; u->p = 0; return r; }
void vf_upn_dtor(struct %(UPN)s *u) { if (u->p != 0) %(DEALLOC)s__op_call(&u->d, u->p); u->p = 0; }
''' % D

UNIT = dict(
    name='rcu',
    driver='drivers/rcu.cpp',
    names=NAMES,
    ghost=GHOST,
    assumptions=[
        'std::atomic<T*> is modelled sequentially consistent (the relaxed sites rcu_list.hpp:232,235,542,562 are treated as seq_cst; see C07); compare_exchange_weak may fail spuriously',
        'std::allocator_traits<A>::allocate/construct/destroy/deallocate are modelled by malloc/free plus calls of the lowered node / record constructors and destructor; allocate may throw',
        'std::unique_ptr<node, detail::deallocator> is modelled by {pointer, deleter} calling the lowered deleter',
        'environment: other threads push records on the log at any atomic step (the head value seen by a CAS loop is arbitrary); list links are stable inside m_write_mutex (writers are serialised - proved - and readers never write them)',
        'functions that walk the log or the list (rcu_guard::unlock, ~rcu_list) are BOUNDED checks over all well-formed heaps of at most N records/nodes built by the harness; they are reported under bounded_checks, never as proved',
        'instantiation verified: T = abstract payload with non-trivial destructor (ghost life state), M = std::mutex, Alloc = std::allocator',
    ])

TAGMAP = {'L1': 'C12', 'L2': 'C12', 'L5': 'C12 C14', 'life': 'C13', 'noexcept': 'C13'}

RG = ('g_node_allocs, g_node_frees, g_rec_allocs, g_rec_frees, g_node_destroys, g_node_constructs, g_new, g_newrec, g_published, g_rec_published, g_rec_pushes, '
      'g_victim, g_unlinked, g_chain_stores, g_list_reads, g_log_reads, g_cas_fail, g_atomic_ops, g_owner_clears, g_next_written, g_own, g_scan_saw_owned, g_after_owner_clear, vf_env_rec, ' + GHOST_ASSIGNS)
FRESH = ('g_new == 0 && g_newrec == 0 && !g_published && !g_rec_published && g_rec_pushes == 0 && g_victim == 0 && !g_unlinked && g_chain_stores == 0 && g_own == 0 && '
         'g_owner_clears == 0 && g_node_allocs == 0 && g_node_frees == 0 && g_rec_allocs == 0 && g_rec_frees == 0 && g_node_destroys == 0 && g_node_constructs == 0 && g_list_reads == 0 && '
         'g_log_reads == 0 && g_cas_fail == 0 && g_atomic_ops == 0 && g_after_owner_clear == 0')
R3, G3 = CNT_R(1000), CNT_G(20)
ONE_CS = ('vf_n_acq_excl == __CPROVER_old(vf_n_acq_excl) + 1 && vf_n_rel == __CPROVER_old(vf_n_rel) + 1 && vf_held == 0 && !self->m_write_mutex.excl_me')
NOBLOCK = ('vf_n_mutex_ops == __CPROVER_old(vf_n_mutex_ops) && vf_n_block == __CPROVER_old(vf_n_block) && vf_n_yield == __CPROVER_old(vf_n_yield) && '
           'vf_n_cvwait == __CPROVER_old(vf_n_cvwait) && vf_n_timed == __CPROVER_old(vf_n_timed)')

# a small well-formed list around the nodes a writer touches: empty, or head node hn / tail node tn
LIST_SETUP = ('vf_LST = self; vf_hn.data.life = VF_LIVE; vf_tn.data.life = VF_LIVE; vf_hn.back.v = 0; vf_tn.next.v = 0; vf_hn.deleted = 0; vf_tn.deleted = 0; '
              'if (vf_nondet_bool()) { self->m_head.v = 0; self->m_tail.v = 0; } '
              'else if (vf_nondet_bool()) { self->m_head.v = &vf_hn; self->m_tail.v = &vf_hn; vf_hn.next.v = 0; } '
              'else { self->m_head.v = &vf_hn; self->m_tail.v = &vf_tn; vf_hn.next.v = vf_nondet_bool() ? (void *)&vf_tn : (void *)&vf_mid; vf_tn.back.v = vf_nondet_bool() ? (void *)&vf_hn : (void *)&vf_mid; } '
              'self->m_zombie_head.v = vf_nondet_bool() ? (void *)&vf_env_rec : (void *)0; self->m_write_mutex.guards = 0;') % D
PUSH_REQ = ('vf_LST == self && ' + FRESH + ' && !self->m_write_mutex.excl_me && self->m_write_mutex.shared_me == 0 && self->m_write_mutex.guards == 0 && vf_held == 0 && !vf_exc && !vf_user_threw && '
            '%(arg)s->life == VF_LIVE && %(arg)s->guard == 0 && ((self->m_head.v == 0) == (self->m_tail.v == 0)) && ' + R3)


def push_entry(front, arg):
    if front:
        link = ('(__CPROVER_old(self->m_head.v) == 0 ? (self->m_tail.v == (void *)g_new && g_new->next.v == 0) : '
                '(g_new->next.v == __CPROVER_old(self->m_head.v) && ((struct %(NODE)s *)__CPROVER_old(self->m_head.v))->back.v == (void *)g_new && self->m_tail.v == __CPROVER_old(self->m_tail.v)))') % D
        where = 'self->m_head.v == (void *)g_new'
        text = 'the new node is the head, linked in front of the old head'
    else:
        link = ('(__CPROVER_old(self->m_tail.v) == 0 ? (self->m_head.v == (void *)g_new && g_new->back.v == 0) : '
                '(g_new->back.v == __CPROVER_old(self->m_tail.v) && ((struct %(NODE)s *)__CPROVER_old(self->m_tail.v))->next.v == (void *)g_new && self->m_head.v == __CPROVER_old(self->m_head.v)))') % D
        where = 'self->m_tail.v == (void *)g_new && g_new->next.v == 0'
        text = 'the new node is the tail, linked behind the old tail'
    return dict(
        props='C12 C13', setup=LIST_SETUP,
        requires=[PUSH_REQ % dict(arg=arg)],
        ensures=[('C12', ONE_CS, 'the whole mutation is one critical section of m_write_mutex (writers are serialised), released on normal and exceptional exit'),
                 ('C12', '!vf_exc ==> (g_node_allocs == 1 && g_node_constructs == 1 && g_published && g_new != 0 && g_new->data.life == VF_LIVE && ' + where + ' && ' + link + ')', text + ' (publication order: model assertions)'),
                 ('C12 C13', 'vf_exc ==> (!g_published && self->m_head.v == __CPROVER_old(self->m_head.v) && self->m_tail.v == __CPROVER_old(self->m_tail.v) && g_node_frees == g_node_allocs && g_node_destroys == 0)',
                  'a throwing allocation/constructor publishes nothing and releases the raw storage without destroying it'),
                 ('C13', '!vf_exc ==> (g_node_frees == 0 && g_node_destroys == 0)', 'nothing is destroyed or freed by an insertion'),
                 ('', 'vf_user_threw ==> vf_exc', 'exceptions propagate')],
        assigns=['*self, *%s, vf_hn, vf_tn, ' % arg + RG])


FN = {
    r'rcu_list::push_front': push_entry(True, 'data'),
    r'rcu_list::push_back': push_entry(False, 'data'),
    r'rcu_list::emplace_front': push_entry(True, 'vs'),
    r'rcu_list::emplace_back': push_entry(False, 'vs'),
}

# ---------------------------------------------------------------------------- erase
ERASE_SETUP = ('vf_LST = self; iter->m_current = &vf_mid; g_victim = &vf_mid; vf_mid.data.life = VF_LIVE; vf_hn.data.life = VF_LIVE; vf_tn.data.life = VF_LIVE; '
               'vf_mid.back.v = vf_nondet_bool() ? (void *)&vf_hn : (void *)0; vf_mid.next.v = vf_nondet_bool() ? (void *)&vf_tn : (void *)0; '
               'vf_hn.next.v = &vf_mid; vf_tn.back.v = &vf_mid; '
               'self->m_zombie_head.v = vf_nondet_bool() ? (void *)&vf_env_rec : (void *)0; self->m_write_mutex.guards = 0;')
ERASE_FRESH = FRESH.replace('g_victim == 0 && ', '')
FN[r'rcu_list::erase'] = dict(
    props='C05 C12 C13', setup=ERASE_SETUP,
    requires=['vf_LST == self && iter->m_current == &vf_mid && g_victim == &vf_mid && ' + ERASE_FRESH + ' && !self->m_write_mutex.excl_me && self->m_write_mutex.shared_me == 0 && '
              'self->m_write_mutex.guards == 0 && vf_held == 0 && !vf_exc && (vf_mid.back.v == 0 || vf_mid.back.v == (void *)&vf_hn) && (vf_mid.next.v == 0 || vf_mid.next.v == (void *)&vf_tn) && ' + R3],
    ensures=[('C05 C12 C13', ONE_CS, 'erase - including the test-and-set of the deleted flag that makes a second erase a no-op (so that a node is logged, hence destroyed and freed, once) - is one critical section of m_write_mutex, released on every exit'),
             ('C12', '(!vf_exc && !__CPROVER_old(vf_mid.deleted)) ==> (vf_mid.deleted && g_chain_stores == 1 && g_unlinked && '
                     '(__CPROVER_old(vf_mid.back.v) != 0 ? vf_hn.next.v == __CPROVER_old(vf_mid.next.v) : self->m_head.v == __CPROVER_old(vf_mid.next.v)) && '
                     '(__CPROVER_old(vf_mid.next.v) != 0 ? vf_tn.back.v == __CPROVER_old(vf_mid.back.v) : self->m_tail.v == __CPROVER_old(vf_mid.back.v)))',
              'first erase: exactly one store on the forward chain redirects the predecessor (or m_head) to the successor; successor/m_tail point back'),
             ('C12', 'vf_mid.next.v == __CPROVER_old(vf_mid.next.v) && vf_mid.back.v == __CPROVER_old(vf_mid.back.v)', "the erased node's own links are left intact (a traversal standing on it continues)"),
             ('C05', '(!vf_exc && !__CPROVER_old(vf_mid.deleted)) ==> (g_rec_allocs == 1 && g_rec_pushes == 1 && g_rec_published)',
              'the node is logged exactly once, after the unlink (order and content of the record: model assertions at the successful CAS)'),
             ('C05 C12 C13', '__CPROVER_old(vf_mid.deleted) ==> (g_chain_stores == 0 && g_rec_allocs == 0 && g_rec_pushes == 0 && self->m_head.v == __CPROVER_old(self->m_head.v) && self->m_tail.v == __CPROVER_old(self->m_tail.v))',
              'a second erase of the same node is a no-op'),
             ('C12', '!vf_exc ==> vf_ret->m_current == __CPROVER_old(vf_mid.next.v)', 'returns an iterator to the successor'),
             ('C05', 'g_node_frees == 0 && g_node_destroys == 0 && g_rec_frees == 0', 'erase itself never destroys or frees anything'),
             ('C13', '!vf_exc ==> (g_rec_allocs == g_rec_pushes && g_node_allocs == 0)', 'every bookkeeping record erase allocates is handed to the log (none is dropped and leaked)')],
    assigns=['*vf_ret, *self, vf_hn, vf_tn, vf_mid, ' + RG],
    loops={0: dict(
        invariant=[('C05', 'newZombie == g_newrec && g_newrec != 0 && g_newrec->zombie_node == &vf_mid && g_newrec->owner.v == 0 && !g_rec_published && g_rec_pushes == 0 && g_unlinked && g_chain_stores == 1 && '
                           'self->m_write_mutex.excl_me && vf_held == 1 && !vf_exc && g_victim == &vf_mid && vf_LST == self && g_new == 0 && g_own == 0 && g_rec_allocs == 1 && '
                           'g_cas_fail >= 0 && g_cas_fail <= VF_BIG && g_atomic_ops >= 0 && g_atomic_ops <= VF_BIG && g_log_reads >= 0 && g_log_reads <= VF_BIG && g_owner_clears == 0 && g_list_reads >= 0 && g_list_reads <= VF_BIG',
                    'retry loop of the log push: the record is complete and unpublished, the node already unlinked')],
        assigns='oldZombie, g_newrec->next.v, self->m_zombie_head.v, g_cas_fail, g_atomic_ops, g_rec_published, g_rec_pushes, g_log_reads')})

# ---------------------------------------------------------------------------- registration
RL_SETUP = 'vf_LST = list; list->m_zombie_head.v = vf_nondet_bool() ? (void *)&vf_env_rec : (void *)0;'
RL = dict(
    props='C05 C14', setup=RL_SETUP,
    requires=['vf_LST == list && ' + FRESH + ' && !vf_exc && vf_held == 0 && ' + R3],
    ensures=[('C05', '!vf_exc ==> (self->m_list == list && self->m_zombie == g_newrec && g_newrec != 0 && g_newrec->owner.v == (void *)self && g_newrec->zombie_node == 0 && g_rec_allocs == 1)',
              'a record owned by this guard is allocated and constructed'),
             ('C05', '!vf_exc ==> (g_rec_pushes == 1 && g_rec_published)', 'and published exactly once, with next = the head value the successful CAS validated (model assertion)'),
             ('C05', 'g_list_reads == 0', 'nothing of the list is read before the registration is complete'),
             ('C14', NOBLOCK, 'registration takes no lock, waits on nothing: the only loop is the CAS retry'),
             ('C05', 'vf_exc ==> g_rec_pushes == 0', 'a failed allocation registers nothing'),
             ('', 'g_node_frees == 0 && g_rec_frees == 0 && g_node_destroys == 0', 'nothing freed')],
    assigns=['*self, list->m_zombie_head.v, ' + RG],
    loops={0: dict(
        invariant=[('C05 C14', 'self->m_zombie == g_newrec && g_newrec != 0 && g_newrec->owner.v == (void *)self && g_newrec->zombie_node == 0 && !g_rec_published && g_rec_pushes == 0 && !vf_exc && '
                               'g_list_reads == 0 && g_victim == 0 && g_new == 0 && g_own == 0 && vf_LST == list && g_rec_allocs == 1 && self->m_list == list && '
                               'g_cas_fail >= 0 && g_cas_fail <= VF_BIG && g_atomic_ops >= 0 && g_atomic_ops <= VF_BIG && g_log_reads >= 0 && g_log_reads <= VF_BIG && g_owner_clears == 0',
                    'CAS retry loop: the record is complete and not yet published')],
        assigns='oldNext, g_newrec->next.v, list->m_zombie_head.v, g_cas_fail, g_atomic_ops, g_rec_published, g_rec_pushes, g_log_reads')})
FN[r'rcu_list::rcu_guard::rcu_read_lock'] = RL
RL2 = dict(RL)
RL2.pop('loops')
RL2['inline_callees'] = True   # thin wrapper: verified with rcu_read_lock (and its loop contract) inlined
FN[r'rcu_list::rcu_guard::rcu_write_lock'] = RL2

# ---------------------------------------------------------------------------- read paths (C14: wait-free)
HEAD_SETUP = 'vf_LST = self; self->m_head.v = vf_nondet_bool() ? (void *)&vf_hn : (void *)0;'
FN[r'rcu_list::begin'] = dict(
    props='C12 C14', setup=HEAD_SETUP, loop_free=True,
    requires=['vf_LST == self && ' + FRESH + ' && !vf_exc && ' + R3],
    ensures=[('C12 C14', 'vf_ret->m_current == self->m_head.v && g_atomic_ops == 1 && g_list_reads == 1 && !vf_exc', 'one atomic load of the head'),
             ('C14', NOBLOCK, 'no lock, no wait')],
    assigns='*vf_ret, ' + RG)
IT_SETUP = 'vf_LST = 0; self->m_current = &vf_mid; vf_mid.next.v = vf_nondet_bool() ? (void *)&vf_tn : (void *)0; vf_mid.data.life = VF_LIVE;'
FN[r'rcu_list::(const_)?iterator::op_inc'] = dict(
    props='C12 C14', setup=IT_SETUP, loop_free=True, optional=True,
    where=lambda fm: not fm['cname'].endswith('__int'),
    requires=['self->m_current == &vf_mid && ' + FRESH + ' && !vf_exc && ' + R3],
    ensures=[('C12 C14', 'self->m_current == vf_mid.next.v && g_atomic_ops == 1 && !vf_exc && __CPROVER_return_value == self', 'advances with one atomic load of next'),
             ('C14', NOBLOCK, 'no lock, no wait')],
    assigns='*self, ' + RG)
FN.setdefault(r'rcu_list::(const_)?iterator::op_inc', [])
if not isinstance(FN[r'rcu_list::(const_)?iterator::op_inc'], list):
    FN[r'rcu_list::(const_)?iterator::op_inc'] = [FN[r'rcu_list::(const_)?iterator::op_inc']]
FN[r'rcu_list::(const_)?iterator::op_inc'].append(dict(
    props='C12 C14', setup=IT_SETUP, optional=True, inline_callees=True,
    where=lambda fm: fm['cname'].endswith('__int'),
    requires=['self->m_current == &vf_mid && vf_ret != self && ' + FRESH + ' && !vf_exc && ' + R3],
    ensures=[('C12 C14', 'self->m_current == vf_mid.next.v && vf_ret->m_current == &vf_mid && g_atomic_ops == 1 && !vf_exc', 'post-increment advances by one atomic load of next and returns the old position'),
             ('C14', NOBLOCK, 'no lock, no wait')],
    assigns='*self, *vf_ret, ' + RG))
FN[r'rcu_list::(const_)?iterator::(op_deref|op_arrow)'] = dict(
    props='C12 C14', setup=IT_SETUP, loop_free=True,
    requires=['self->m_current == &vf_mid && !vf_exc'],
    ensures=[('C12 C14', '__CPROVER_return_value == &vf_mid.data && !vf_exc', 'yields the element of the current node, touches nothing else')],
    assigns='')
FN[r'rcu_list::(const_)?iterator::op_ne'] = dict(
    props='C12 C14', loop_free=True,
    requires=['!vf_exc'],
    ensures=[('C12 C14', '__CPROVER_return_value == (self->m_current != 0) && !vf_exc', 'end is the null node')],
    assigns='')

# ---------------------------------------------------------------------------- bounded heap checks
NB = 3   # records / nodes in the harness-built heaps


def LOG_BUILD(n):
    return r'''
  struct %(L)s lst; vf_LST = &lst;
  struct %(GUARD)s other_guard;
  struct %(ZN)s *older = 0;
  unsigned long nrec = vf_nondet_ulong(); __CPROVER_assume(nrec <= NBOUND);
  _Bool any_owned = 0; int n_zombies = 0; int n_reader_recs = 0;
  for (unsigned long i = 0; i < NBOUND; i++) {
    if (i < nrec) {
      struct %(ZN)s *r = (struct %(ZN)s *)__CPROVER_allocate(sizeof(struct %(ZN)s), 0);
      r->next.v = older;
      if (vf_nondet_bool()) {                       /* a reader registration (possibly still owned) */
        r->zombie_node = 0;
        r->owner.v = ALLOW_OWNED && vf_nondet_bool() ? (void *)&other_guard : (void *)0;
        if (r->owner.v != 0) any_owned = 1;
        n_reader_recs++;
      } else {                                      /* an erased node waiting for reclamation */
        struct %(NODE)s *zn = (struct %(NODE)s *)__CPROVER_allocate(sizeof(struct %(NODE)s), 0);
        zn->data.life = VF_LIVE; zn->data.guard = 0; zn->deleted = 1; zn->next.v = 0; zn->back.v = 0;
        r->zombie_node = zn; r->owner.v = 0;
        n_zombies++;
      }
      older = r;
    }
  }
'''.replace('NBOUND', str(n)) % D


FN[r'rcu_list::rcu_guard::unlock'] = dict(
    props='C05 C13',
    bounded='log of at most %d older records (all shapes: reader registrations owned/unowned, erased-node records); loops unwound %d times with unwinding assertions' % (NB, NB + 2),
    cbmc_flags=['--unwind', str(NB + 2), '--unwinding-assertions'],
    harness=LOG_BUILD(NB).replace('ALLOW_OWNED', '1') + r'''
  struct %(GUARD)s g; g.m_list = &lst;
  struct %(ZN)s *own = (struct %(ZN)s *)__CPROVER_allocate(sizeof(struct %(ZN)s), 0);
  own->next.v = older; own->owner.v = &g; own->zombie_node = 0;
  g.m_zombie = own; g_own = own; lst.m_zombie_head.v = own;
  vf_exc = 0;
  %(GUARD)s__unlock(&g);
  __CPROVER_assert(!vf_exc, "[C05] unlock does not throw");
  __CPROVER_assert(own->owner.v == 0 && g_owner_clears == 1, "[C05,C13] the guard's owner field is cleared exactly once (a record that stays owned is never reclaimed)");
  __CPROVER_assert(g_after_owner_clear == 0, "[C05] clearing the owner is the last thing unlock does (a later guard may free this record right after)");
  __CPROVER_assert(!any_owned || (g_rec_frees == 0 && g_node_frees == 0 && g_node_destroys == 0),
                   "[C05] nothing is reclaimed while an older guard is still registered (its owner may still reach the erased nodes)");
  __CPROVER_assert(any_owned || (g_rec_frees == (int)nrec && g_node_frees == n_zombies && g_node_destroys == n_zombies && own->next.v == 0 && g_next_written),
                   "[C13] with no older guard alive every older record and every erased node is destroyed and freed exactly once, and the own record is cut off from them first");
  __CPROVER_assert(n_zombies > 0 || g_node_destroys == 0, "[C13] with nothing erased, releasing a handle destroys no element");
  __CPROVER_assert(!any_owned || own->next.v == (void *)older,
                   "[C13] while an older guard is still registered the log stays intact: the released record still links to every older record (a skipped record could never be reclaimed: leak)");
''' % D)

FN[r'rcu_list::ctor(__.*)?'] = dict(
    props='C12 C13', setup='vf_LST = 0; g_new = 0; g_victim = 0; g_env_off = 1; g_owner_clears = 0;',
    requires=['vf_LST == 0 && g_new == 0 && g_victim == 0 && g_env_off && g_owner_clears == 0 && !vf_exc'],
    ensures=[('C12 C13', 'self->m_head.v == 0 && self->m_tail.v == 0 && self->m_zombie_head.v == 0 && !self->m_write_mutex.excl_me && self->m_write_mutex.shared_me == 0 && !vf_exc',
              'a new list is empty (head, tail and the reclamation log are null) and unlocked')],
    assigns='*self, ' + RG)
FN[r'rcu_list::dtor'] = dict(
    props='C13',
    bounded='list of at most %d nodes and log of at most %d records (all released); loops unwound %d times with unwinding assertions' % (NB, NB, NB + 2),
    cbmc_flags=['--unwind', str(NB + 2), '--unwinding-assertions'],
    harness=LOG_BUILD(NB).replace('ALLOW_OWNED', '0') + r'''
  lst.m_zombie_head.v = older; g_env_off = 1;
  struct %(NODE)s *head = 0; struct %(NODE)s *prev = 0; struct %(NODE)s *tail = 0;
  unsigned long nnode = vf_nondet_ulong(); __CPROVER_assume(nnode <= %(NB)d);
  for (unsigned long j = 0; j < %(NB)d; j++) {
    if (j < nnode) {
      struct %(NODE)s *nd = (struct %(NODE)s *)__CPROVER_allocate(sizeof(struct %(NODE)s), 0);
      nd->data.life = VF_LIVE; nd->data.guard = 0; nd->deleted = 0; nd->next.v = 0; nd->back.v = prev;
      if (prev != 0) prev->next.v = nd; else head = nd;
      prev = nd; tail = nd;
    }
  }
  lst.m_head.v = head; lst.m_tail.v = tail;
  lst.m_write_mutex.excl_me = 0; lst.m_write_mutex.shared_me = 0;
  vf_exc = 0;
  %(L)s__dtor(&lst);
  __CPROVER_assert(!vf_exc, "[C13] the list destructor does not throw");
  __CPROVER_assert(g_node_destroys == (int)nnode + n_zombies && g_node_frees == (int)nnode + n_zombies,
                   "[C13] every element still in the list and every erased element is destroyed and deallocated exactly once");
  __CPROVER_assert(g_rec_frees == (int)nrec, "[C13] every bookkeeping record is freed exactly once");
''' % dict(D, NB=NB))

# ---------------------------------------------------------------------------- rcu_guarded handles
# unlock() is only verified under a bound (above); here its contract is what the handle destructors rely on
H_SETUP = ('vf_LST = &vf_list; self->m_ptr = &vf_list; vf_list.m_zombie_head.v = vf_nondet_bool() ? (void *)&vf_env_rec : (void *)0;') % D
for _h, _lock in (('read_handle', 'rcu_read_lock'), ('write_handle', 'rcu_write_lock')):
    FN[r'rcu_guarded::%s::access' % _h] = dict(
        props='C05 C14', setup=H_SETUP, inline_callees=True,
        requires=['vf_LST == self->m_ptr && vf_LST != 0 && ' + FRESH + ' && !vf_exc && vf_held == 0 && ' + R3],
        ensures=[('C05', '(!vf_exc && !__CPROVER_old(self->m_accessed)) ==> (self->m_accessed && g_rec_pushes == 1 && g_rec_published && g_list_reads == 0 && self->m_guard.m_zombie == g_newrec)',
                  'first access registers the guard (exactly one record pushed) before anything of the list is read'),
                 ('C05', '__CPROVER_old(self->m_accessed) ==> (self->m_accessed && g_rec_pushes == 0 && g_atomic_ops == 0)', 'later accesses do nothing'),
                 ('C05', 'vf_exc ==> (!self->m_accessed && g_rec_pushes == 0)', 'a failed registration leaves the handle unregistered'),
                 ('C14', NOBLOCK, 'no lock, no wait')],
        assigns=['*self, vf_list.m_zombie_head.v, ' + RG])
    FN[r'rcu_guarded::%s::(op_deref|op_arrow)' % _h] = dict(
        props='C05 C14', setup=H_SETUP, inline_callees=True,
        requires=['vf_LST == self->m_ptr && vf_LST != 0 && ' + FRESH + ' && !vf_exc && vf_held == 0 && ' + R3],
        ensures=[('C05', '!vf_exc ==> (__CPROVER_return_value == self->m_ptr && self->m_accessed && (__CPROVER_old(self->m_accessed) || (g_rec_pushes == 1 && g_list_reads == 0)))',
                  'the list pointer is handed out only after the guard has been registered'),
                 ('C14', NOBLOCK, 'no lock, no wait')],
        assigns=['*self, vf_list.m_zombie_head.v, ' + RG])
    FN[r'rcu_guarded::%s::ctor__.*' % _h] = dict(
        props='C05', requires=['!vf_exc'],
        ensures=[('C05', 'self->m_ptr == ptr && !self->m_accessed && !vf_exc', 'a fresh handle is not registered and has touched nothing')],
        assigns='*self')
for _h in ('read_handle', 'write_handle'):
    FN[r'rcu_guarded::%s::dtor' % _h] = dict(
        props='C05 C13',
        bounded='the guard of the handle is the only registered record (empty older log); the general log shapes are covered by the bounded check of rcu_guard::unlock',
        cbmc_flags=['--unwind', '3', '--unwinding-assertions'],
        harness=r'''
  struct %%(L)s lst; vf_LST = &lst; g_env_off = 1;
  lst.m_write_mutex.excl_me = 0; lst.m_write_mutex.shared_me = 0; lst.m_head.v = 0; lst.m_tail.v = 0;
  struct rcu_guarded_rcu_list_vf_payload_%(H)s h;
  h.m_ptr = &lst; h.m_guard.m_list = &lst;
  struct %%(ZN)s *own = (struct %%(ZN)s *)__CPROVER_allocate(sizeof(struct %%(ZN)s), 0);
  own->next.v = 0; own->owner.v = &h.m_guard; own->zombie_node = 0;
  h.m_accessed = vf_nondet_bool();
  if (h.m_accessed) { h.m_guard.m_zombie = own; g_own = own; lst.m_zombie_head.v = own; }
  else { h.m_guard.m_zombie = 0; g_own = 0; lst.m_zombie_head.v = 0; }
  _Bool was_accessed = h.m_accessed;
  vf_exc = 0;
  rcu_guarded_rcu_list_vf_payload_%(H)s__dtor(&h);
  __CPROVER_assert(!vf_exc, "[C05] a handle destructor does not throw");
  __CPROVER_assert(!was_accessed || (own->owner.v == 0 && g_owner_clears == 1),
                   "[C05,C13] a handle that registered its guard releases it exactly once when it is destroyed (a record that stays owned blocks every later reclamation: leak)");
  __CPROVER_assert(was_accessed || (g_owner_clears == 0 && g_atomic_ops == 0), "[C05] a handle that was never dereferenced never registered: its destructor touches nothing");
''' % dict(H=_h) % D)
FN[r'rcu_guarded::lock_(read|write)'] = dict(
    props='C05 C14', loop_free=True, requires=['!vf_exc && ' + FRESH],
    ensures=[('C05 C14', 'vf_ret->m_ptr == &self->m_obj && !vf_ret->m_accessed && !vf_exc && g_atomic_ops == 0', 'handing out a handle touches neither list nor log')],
    assigns='*vf_ret')
