"""Unit `tripwire`: TripWire.hpp including the two DECLARE_* macros (expanded in the driver,
COUNT = 3) — C19: a trip line is one-way, per line, and publishes what preceded it."""
from _common import GHOST_BOUNDS, GHOST_ASSIGNS

SP = 'std_shared_ptr_std_atomic_bool'
VEC = 'std_vector_std_shared_ptr_std_atomic_bool'
IT = 'gnu_cxx_normal_iterator_std_shared_ptr_std_atomic_bool_std_vector_std_shared_ptr_std_atomic_bool'
ACC = 'std_shared_ptr_access_std_atomic_bool_gnu_cxx_S_atomic_false_false'

UNIT = dict(
    name='tripwire',
    driver='drivers/tripwire.cpp',
    names=r'''
/* ---- trusted models of std::shared_ptr<std::atomic<bool>> and std::vector of them ---- */
struct vf_line { struct vf_atomic_bool flag; int refs; int life; };       /* the make_shared'ed control block + object */
struct %(SP)s { struct vf_line *p; };
/* abstract vector: size plus two focus elements chosen nondeterministically by the harness
   (everything proved about e1/e2 holds for every pair of indices); all other elements are
   represented by a scratch slot whose content is arbitrary */
struct %(VEC)s { unsigned long size; struct %(SP)s e1, e2, other; };
struct %(IT)s { struct %(VEC)s *v; unsigned long idx; };
#define %(ACC)s %(SP)s
#define %(ACC)s_element_type vf_atomic_bool
#define %(ACC)s__op_arrow__0 vf_sp_arrow
#define %(ACC)s_element_type__load__1 vf_abool_load
#define %(ACC)s_element_type__store__2 vf_abool_store
#define std_shared_ptr_std_atomic_bool_gnu_cxx_S_atomic %(SP)s
#define std_shared_ptr_std_atomic_bool_gnu_cxx_S_atomic__op_bool__0(s) ((s)->p != 0)
#define ext_op_ne__std_shared_ptr_std_atomic_bool_ref_nullptr_t(s, n) ((s)->p != 0)
#define ext_op_eq__std_shared_ptr_std_atomic_bool_ref_nullptr_t(s, n) ((s)->p == 0)
#define %(SP)s__ctor_copy vf_sp_ctor_copy
#define %(SP)s__ctor_move vf_sp_ctor_move
#define %(SP)s__op_assign__1 vf_sp_assign_move
#define %(SP)s__dtor vf_sp_dtor
#define %(SP)s__ctor(s) ((s)->p = 0)
#define std_make_shared__bool_rref vf_make_shared
#define %(VEC)s__ctor__std_vector_size_type_allocator_type_ref vf_vec_ctor_n
#define %(VEC)s__ctor__std_vector_size_type_value_type_ref_allocator_type_ref vf_vec_ctor_fill
#define %(VEC)s__at__1 vf_vec_at
#define %(VEC)s__op_index__1 vf_vec_index
#define %(VEC)s__begin__0 vf_vec_begin
#define %(VEC)s__end__0 vf_vec_end
#define %(VEC)s__dtor vf_vec_dtor
#define %(IT)s__op_deref__0 vf_it_deref
#define %(IT)s__op_inc__0 vf_it_inc
#define ext_op_ne__normal_iterator_std_shared_ptr_std_atomic_bool_std_vector_std_shared_ptr_std_atomic_bool_ref_normal_iterator_std_shared_ptr_std_atomic_bool_std_vector_std_shared_ptr_std_atomic_bool_ref vf_it_ne
''' % dict(SP=SP, VEC=VEC, IT=IT, ACC=ACC),
    assumptions=[
        'std::shared_ptr<std::atomic<bool>> is modelled by a pointer to {flag, strong count, life}: copy +1, move steals, destruction -1 and the object dies at 0; make_shared returns a fresh object',
        'std::vector<shared_ptr> is modelled abstractly: size plus two focus elements at nondeterministic indices, all other elements arbitrary; at() throws for index >= size',
        'function-local statics are lowered to a global plus an initialisation guard (thread-safe initialisation by the compiler is trusted)',
        'publication (C19, last sentence): the per-call sufficient condition of the C++ synchronizes-with rule is checked - the tripping store is release or stronger, the detecting load is acquire or stronger; that this condition makes earlier writes visible is the memory model itself (trusted)',
        'DECLARE_INDEXED_TRIPLINES is expanded with COUNT = 3 in the driver',
    ],
    ghost=GHOST_BOUNDS + r'''
int g_stores;            /* ghost: atomic stores performed by the verified call */
struct vf_atomic_bool *g_store_on;
unsigned long vf_f1, vf_f2;    /* focus indices of the abstract vector */
void vf_tw_atomic_write(void *a, long o, long n, int mo)
{
  __CPROVER_assert(n == 1, "[C19] a trip line is only ever set: a store writes something other than true");
  __CPROVER_assert(mo == VF_MO_RELEASE || mo == VF_MO_SEQ_CST || mo == VF_MO_ACQ_REL || mo == VF_DEFAULT_MO,
                   "[C19] the store that trips a line has release (or stronger) order, so that what preceded it is published");
  g_stores = g_stores + 1;
  g_store_on = (struct vf_atomic_bool *)a;
}
void vf_tw_atomic_read(void *a, long v, int mo)
{
  __CPROVER_assert(mo == VF_MO_ACQUIRE || mo == VF_MO_SEQ_CST || mo == VF_DEFAULT_MO,
                   "[C19] the load that detects a trip has acquire (or stronger) order");
}
#define VF_HOOK_ATOMIC_WRITE(a, o, n, mo, rmw) vf_tw_atomic_write(a, o, n, mo)
#define VF_HOOK_ATOMIC_READ(a, v, mo) vf_tw_atomic_read(a, v, mo)
/* a line is monotone: the environment (other triggers) can only set it */
#define VF_HOOK_ATOMIC_PRE(a) do { struct vf_atomic_bool *vf_a_ = (struct vf_atomic_bool *)(a); if (!vf_a_->v) vf_a_->v = vf_nondet_bool(); } while (0)

#define SP_OK(s) ((s).p == 0 || ((s).p->life == VF_LIVE && (s).p->refs >= 1 && (s).p->refs < 1000))
struct vf_atomic_bool *vf_sp_arrow(struct %(SP)s *s) { return s->p ? &s->p->flag : (struct vf_atomic_bool *)0; }
void vf_sp_ctor_copy(struct %(SP)s *s, struct %(SP)s *o) { s->p = o->p; if (s->p) s->p->refs = s->p->refs + 1; }
void vf_sp_ctor_move(struct %(SP)s *s, struct %(SP)s *o) { s->p = o->p; o->p = 0; }
void vf_sp_release(struct vf_line *l)
{
  if (l) {
    __CPROVER_assert(l->life == VF_LIVE && l->refs >= 1, "[life] shared_ptr releases an object that is not alive");
    l->refs = l->refs - 1;
    if (l->refs == 0) l->life = VF_DEAD;
  }
}
void vf_sp_dtor(struct %(SP)s *s) { vf_sp_release(s->p); s->p = 0; }
struct %(SP)s *vf_sp_assign_move(struct %(SP)s *s, struct %(SP)s *o)
{
  struct vf_line *old = s->p;
  s->p = o->p; o->p = 0;
  vf_sp_release(old);
  return s;
}
void vf_make_shared(struct %(SP)s *ret, _Bool *init)
{
  struct vf_line *l = (struct vf_line *)__CPROVER_allocate(sizeof(struct vf_line), 0);
  l->flag.v = *init; l->refs = 1; l->life = VF_LIVE;
  ret->p = l;
}
void vf_vec_ctor_n(struct %(VEC)s *v, unsigned long n, void *alloc) { v->size = n; v->e1.p = 0; v->e2.p = 0; v->other.p = 0; }
/* vector(n, value): n COPIES of the same shared_ptr (they all share one object) */
void vf_vec_ctor_fill(struct %(VEC)s *v, unsigned long n, struct %(SP)s *val, void *alloc)
{
  v->size = n; v->e1.p = 0; v->e2.p = 0; v->other.p = 0;
  if (vf_f1 < n) vf_sp_ctor_copy(&v->e1, val);
  if (vf_f2 < n) vf_sp_ctor_copy(&v->e2, val);
}
struct %(SP)s *vf_vec_elem(struct %(VEC)s *v, unsigned long i)
{
  if (i == vf_f1) return &v->e1;
  if (i == vf_f2) return &v->e2;
  v->other.p = 0;          /* a non-focus element: the proof does not track it */
  return &v->other;
}
struct %(SP)s *vf_vec_at(struct %(VEC)s *v, unsigned long i)
{
  if (i >= v->size) { vf_exc = 1; return &v->other; }     /* std::out_of_range */
  return vf_vec_elem(v, i);
}
struct %(SP)s *vf_vec_index(struct %(VEC)s *v, unsigned long i)
{
  __CPROVER_assert(i < v->size, "[C19] vector subscript out of range (undefined behaviour instead of the required exception)");
  return vf_vec_elem(v, i);
}
void vf_vec_begin(struct %(IT)s *it, struct %(VEC)s *v) { it->v = v; it->idx = 0; }
void vf_vec_end(struct %(IT)s *it, struct %(VEC)s *v) { it->v = v; it->idx = v->size; }
_Bool vf_it_ne(struct %(IT)s *a, struct %(IT)s *b) { return a->idx != b->idx; }
struct %(SP)s *vf_it_deref(struct %(IT)s *it)
{
  __CPROVER_assert(it->idx < it->v->size, "[C19] vector iterator dereferenced past the end");
  return vf_vec_elem(it->v, it->idx);
}
struct %(IT)s *vf_it_inc(struct %(IT)s *it) { it->idx = it->idx + 1; return it; }
void vf_vec_dtor(struct %(VEC)s *v) { vf_sp_dtor(&v->e1); vf_sp_dtor(&v->e2); }
''' % dict(SP=SP, VEC=VEC, IT=IT))

TAGMAP = {'life': 'C19', 'noexcept': 'C19', 'arith': 'C19'}

TW_G = 'g_stores, g_store_on, ' + GHOST_ASSIGNS
LINE = 'struct vf_line vf_l; vf_l.life = VF_LIVE; __CPROVER_assume(vf_l.refs >= 1 && vf_l.refs < 100);'
NOSTORE = 'g_stores == __CPROVER_old(g_stores)'

FN = {
    r'TripWireTrigger::dtor': dict(
        props='C19',
        setup=LINE + ' self->lineTrigger.p = vf_nondet_bool() ? &vf_l : 0;',
        requires=['SP_OK(self->lineTrigger) && g_stores == 0 && !vf_exc'],
        ensures=[('C19', '__CPROVER_old(self->lineTrigger.p) != 0 ==> (g_stores == 1 && g_store_on == &__CPROVER_old(self->lineTrigger.p)->flag && __CPROVER_old(self->lineTrigger.p)->flag.v)',
                  'a trigger that still owns a line trips exactly that line (one release store of true)'),
                 ('C19', '__CPROVER_old(self->lineTrigger.p) == 0 ==> g_stores == 0', 'a moved-from trigger is destroyed safely and trips nothing'),
                 ('C19', '!vf_exc && self->lineTrigger.p == 0', 'no exception; the reference is dropped')],
        assigns=['*self, ' + TW_G, 'self->lineTrigger.p != 0: *(self->lineTrigger.p)']),
    r'TripWireTrigger::ctor_move': dict(
        props='C19', setup=LINE + ' twt->lineTrigger.p = vf_nondet_bool() ? &vf_l : 0;',
        requires=['SP_OK(twt->lineTrigger) && self != twt && !vf_exc'],
        ensures=[('C19', 'self->lineTrigger.p == __CPROVER_old(twt->lineTrigger.p) && twt->lineTrigger.p == 0', 'the duty to trip the line moves to the new object; the source is left empty'),
                 ('C19', NOSTORE + ' && !vf_exc', 'moving trips nothing')],
        assigns='*self, *twt'),
    r'TripWireTrigger::op_assign_move': dict(
        props='C19',
        setup=LINE + ' twt->lineTrigger.p = vf_nondet_bool() ? &vf_l : 0; struct vf_line vf_l2; vf_l2.life = VF_LIVE; __CPROVER_assume(vf_l2.refs >= 1 && vf_l2.refs < 100); self->lineTrigger.p = vf_nondet_bool() ? &vf_l2 : 0;',
        requires=['SP_OK(twt->lineTrigger) && SP_OK(self->lineTrigger) && self != twt && !vf_exc'],
        ensures=[('C19', 'self->lineTrigger.p == __CPROVER_old(twt->lineTrigger.p) && twt->lineTrigger.p == 0', 'the duty to trip the line moves to the target; the source is left empty'),
                 ('C19', NOSTORE + ' && !vf_exc && __CPROVER_return_value == self', 'move assignment trips nothing')],
        assigns=['*self, *twt', 'self->lineTrigger.p != 0: *(self->lineTrigger.p)']),
    r'TripWireTrigger::ctor__TriplineType': dict(
        props='C19', setup=LINE + ' line->p = vf_nondet_bool() ? &vf_l : 0;',
        requires=['SP_OK(*line) && !vf_exc'],
        ensures=[('C19', 'self->lineTrigger.p == __CPROVER_old(line->p) && line->p == 0 && ' + NOSTORE + ' && !vf_exc', 'an explicit line is whatever object the caller passed; constructing trips nothing')],
        assigns='*self, *line'),
    r'TripWireDetector::ctor__TriplineType': dict(
        props='C19', setup=LINE + ' line->p = vf_nondet_bool() ? &vf_l : 0;',
        requires=['SP_OK(*line) && !vf_exc'],
        ensures=[('C19', 'self->lineDetector.p == __CPROVER_old(line->p) && line->p == 0 && ' + NOSTORE + ' && !vf_exc', 'an explicit line is whatever object the caller passed')],
        assigns='*self, *line'),
    r'TripWireDetector::isTripped': dict(
        props='C19', setup=LINE + ' self->lineDetector.p = &vf_l;',
        requires=['self->lineDetector.p != 0 && SP_OK(self->lineDetector) && !vf_exc'],
        ensures=[('C19', NOSTORE + ' && !vf_exc', 'detectors only load (with acquire order: model assertion)'),
                 ('C19', '__CPROVER_return_value == self->lineDetector.p->flag.v', 'reports the state of its own line'),
                 ('C19', '__CPROVER_old(self->lineDetector.p->flag.v) ==> __CPROVER_return_value', 'once tripped, always reported as tripped')],
        assigns=['self->lineDetector.p->flag.v']),
    # the declared (non-indexed) line: one function-local static line, created on first use
    r'TripWire::getLine': dict(
        props='C19', inline_callees=True,
        setup=LINE + ' if (vf_static_TripWire__getLine_staticline_guard) vf_static_TripWire__getLine_staticline.p = &vf_l;',
        requires=['!vf_exc && (!vf_static_TripWire__getLine_staticline_guard || (vf_static_TripWire__getLine_staticline.p != 0 && SP_OK(vf_static_TripWire__getLine_staticline)))'],
        ensures=[('C19', '!vf_exc && vf_ret->p != 0 && vf_ret->p == vf_static_TripWire__getLine_staticline.p && vf_static_TripWire__getLine_staticline_guard',
                  'every call yields the one declared line (created untripped on first use)'),
                 ('C19', '__CPROVER_old(vf_static_TripWire__getLine_staticline_guard) ==> vf_static_TripWire__getLine_staticline.p == __CPROVER_old(vf_static_TripWire__getLine_staticline.p)',
                  'the declared line is never replaced'),
                 ('C19', NOSTORE, 'obtaining the line trips nothing')],
        assigns=['*vf_ret, vf_static_TripWire__getLine_staticline, vf_static_TripWire__getLine_staticline_guard, vf_exc',
                 'vf_static_TripWire__getLine_staticline_guard && vf_static_TripWire__getLine_staticline.p != 0: *(vf_static_TripWire__getLine_staticline.p)']),
    r'TripWire(Detector|Trigger)::ctor': dict(
        props='C19', inline_callees=True,
        setup=LINE + ' if (vf_static_TripWire__getLine_staticline_guard) vf_static_TripWire__getLine_staticline.p = &vf_l;',
        requires=['!vf_exc && (!vf_static_TripWire__getLine_staticline_guard || (vf_static_TripWire__getLine_staticline.p != 0 && SP_OK(vf_static_TripWire__getLine_staticline)))'],
        ensures=[('C19', '!vf_exc && vf_static_TripWire__getLine_staticline_guard && vf_static_TripWire__getLine_staticline.p != 0', 'the default constructor attaches to the declared line'),
                 ('C19', NOSTORE, 'constructing trips nothing')],
        assigns=['*self, vf_static_TripWire__getLine_staticline, vf_static_TripWire__getLine_staticline_guard, vf_exc',
                 'vf_static_TripWire__getLine_staticline_guard && vf_static_TripWire__getLine_staticline.p != 0: *(vf_static_TripWire__getLine_staticline.p)']),
    r'make_tripline': dict(
        props='C19',
        requires=['!vf_exc'],
        ensures=[('C19', 'vf_ret->p != 0 && __CPROVER_is_fresh(vf_ret->p, sizeof(struct vf_line)) && !vf_ret->p->flag.v && vf_ret->p->refs == 1 && vf_ret->p->life == VF_LIVE && !vf_exc && ' + NOSTORE,
                  'a fresh, untripped line')],
        assigns='*vf_ret'),
    r'make_triplines': dict(
        props='C19', setup='__CPROVER_assume(vf_f1 != vf_f2);',
        # CBMC's loop-contract instrumentation forbids allocation inside a contracted loop (make_shared
        # allocates), so this loop is unwound under a stated bound instead: bounded, never counted as proved
        bounded='count <= 3 (loop unwound 4 times with unwinding assertion)',
        cbmc_flags=['--unwindset', 'make_triplines_wrapped_for_contract_checking.0:5', '--unwinding-assertions'],
        requires=['count >= 0 && count <= 3 && vf_f1 != vf_f2 && !vf_exc'],
        ensures=[('C19', 'vf_ret->size == (unsigned long)count && !vf_exc && ' + NOSTORE, 'count lines'),
                 ('C19', 'vf_f1 < vf_ret->size ==> vf_ret->e1.p != 0', 'every element is a line (focus element 1 stands for any index)'),
                 ('C19', 'vf_f2 < vf_ret->size ==> vf_ret->e2.p != 0', 'every element is a line (focus element 2)'),
                 ('C19', '(vf_f1 < vf_ret->size && vf_f2 < vf_ret->size) ==> vf_ret->e1.p != vf_ret->e2.p', 'lines at distinct indices are distinct objects (independent lines)')],
        assigns='*vf_ret'),
    r'TripWire::getIndexedLine': dict(
        props='C19', inline_callees=True,
        # COUNT = 3 is a constant of the macro expansion: unwinding the table-filling loop 4 times is complete
        cbmc_flags=['--unwindset', 'make_triplines.0:5', '--unwinding-assertions'],
        setup='__CPROVER_assume(vf_f1 != vf_f2); ' + LINE + ' if (vf_static_TripWire__getIndexedLine_triplines_guard) { vf_static_TripWire__getIndexedLine_triplines.size = 3; '
              'vf_static_TripWire__getIndexedLine_triplines.e1.p = &vf_l; vf_static_TripWire__getIndexedLine_triplines.e2.p = 0; }',
        requires=['vf_f1 != vf_f2 && !vf_exc && vf_f1 == (unsigned long)index && '
                  '(!vf_static_TripWire__getIndexedLine_triplines_guard || (vf_static_TripWire__getIndexedLine_triplines.size == 3 && '
                  '(vf_f1 >= 3 || (vf_static_TripWire__getIndexedLine_triplines.e1.p != 0 && SP_OK(vf_static_TripWire__getIndexedLine_triplines.e1)))))'],
        ensures=[('C19', 'index >= 3 ==> vf_exc', 'an out-of-range index is rejected with an exception'),
                 ('C19', 'index < 3 ==> (!vf_exc && vf_ret->p != 0 && vf_ret->p == vf_static_TripWire__getIndexedLine_triplines.e1.p)', 'an in-range index yields the line stored at that index (focus element = index)'),
                 ('C19', NOSTORE + ' && vf_static_TripWire__getIndexedLine_triplines.size == 3', 'obtaining a line trips nothing; the table has COUNT lines')],
        assigns=['*vf_ret, vf_static_TripWire__getIndexedLine_triplines, vf_static_TripWire__getIndexedLine_triplines_guard, vf_exc',
                 'vf_static_TripWire__getIndexedLine_triplines_guard && vf_static_TripWire__getIndexedLine_triplines.e1.p != 0: *(vf_static_TripWire__getIndexedLine_triplines.e1.p)']),
    r'TripWire(Detector|Trigger)::ctor__unsigned_int': dict(
        props='C19', setup='__CPROVER_assume(vf_f1 != vf_f2);', inline_callees=True,
        cbmc_flags=['--unwindset', 'make_triplines.0:5', '--unwinding-assertions'],
        requires=['vf_f1 != vf_f2 && !vf_exc && vf_f1 == (unsigned long)index && !vf_static_TripWire__getIndexedLine_triplines_guard'],
        ensures=[('C19', 'index >= 3 ==> vf_exc', 'an out-of-range index is rejected with an exception: no detector/trigger is constructed'),
                 ('C19', 'index < 3 ==> !vf_exc', 'an in-range index succeeds'),
                 ('C19', NOSTORE, 'constructing trips nothing')],
        assigns=['*self, vf_static_TripWire__getIndexedLine_triplines, vf_static_TripWire__getIndexedLine_triplines_guard, vf_exc']),
}
