"""Unit `monitors`: Latch (C10), Barrier (C09), TriggerVariable (C11) — Scheme M
(monitor invariant + wake-up discipline, DESIGN.md section 4)."""
from _common import GHOST_BOUNDS, GHOST_ASSIGNS, CNT_OK

UNIT = dict(
    name='monitors',
    driver='drivers/monitors.cpp',
    assumptions=[
        'std::mutex / std::condition_variable / std::atomic behave as the models in models/models.c (sequentially consistent, spurious wake-ups allowed)',
        'meta-theorem M (DESIGN.md 4): M1-M5 per function imply no lost wake-up for all schedules; fairness of the primitives is not proved',
        'ghost counters bounded by 10^5 (number of arrivals / generations)',
    ],
    ghost=GHOST_BOUNDS + r'''
/* ================= Latch ================= */
struct Latch *vf_L;
int g_init;            /* ghost: initial count */
int g_arr;             /* ghost: arrive() calls linearised so far (all threads) */
int g_my_arr;          /* ghost: arrivals performed by the verified call */
_Bool g_dirty;         /* ghost: a wait predicate may have become true since the last notify_all */
#define L_INV (g_init >= 0 && g_init < VF_BIG && g_arr >= 0 && g_arr < VF_BIG && vf_L->counter_.v == g_init - g_arr)
#define L_IDLE (!vf_L->mtx.excl_me && vf_L->mtx.shared_me == 0 && vf_held == 0 && !g_dirty)
void vf_latch_env(void)
{
  /* rely: other threads only arrive (under mtx) - arrivals grow, invariant kept */
  int na = vf_nondet_int();
  __CPROVER_assume(na >= g_arr && na <= VF_BIG - 2);   /* assumption: fewer than 10^5 arrivals in total */
  g_arr = na;
  vf_L->counter_.v = g_init - na;
}

/* ================= Barrier ================= */
struct Barrier *vf_B;
/* snapshots of the three monitor fields: at the last release (or initially) and just after the
   last acquisition (after the environment step).  They make "plain fields are written only
   inside the critical section" (M3) and the per-critical-section transition checkable. */
unsigned long gb_snap_c, gb_snap_g, gb_snap_t;
unsigned long gb_acq_c, gb_acq_g, gb_acq_t;
int gb_my_arr;                /* ghost: arrivals performed by the verified call */
unsigned long gb_arrival_gen; /* ghost: generation in which the verified call arrived */
_Bool gb_completed_by_me;     /* ghost: the verified call completed that generation */
_Bool gb_drop;                /* ghost: the verified call is wait_and_drop */
unsigned long gb_notified_g;  /* ghost: value of generation_ when notify_all was last called */
_Bool gb_notified;
#define B_FIELDS_EQ(c, g, t) (vf_B->count_ == (c) && vf_B->generation_ == (g) && vf_B->threshold_ == (t))
#define B_INV (vf_B->count_ >= 1 && vf_B->count_ <= vf_B->threshold_ && vf_B->threshold_ < VF_BIG && vf_B->generation_ < VF_BIG)
#define B_IDLE (!vf_B->mtx.excl_me && vf_B->mtx.shared_me == 0 && vf_held == 0)
void vf_barrier_acquired(void)
{
  __CPROVER_assert(B_FIELDS_EQ(gb_snap_c, gb_snap_g, gb_snap_t),
                   "[M3] Barrier: count_/generation_/threshold_ written outside the critical section (before acquiring mtx)");
  /* rely: other participants arrive / drop under mtx obeying the same transition rule:
     generation_ never decreases; within one generation the requirement is fixed and count_
     only goes down, threshold_ only goes down */
  unsigned long n_c = vf_nondet_ulong(), n_g = vf_nondet_ulong(), n_t = vf_nondet_ulong();
  __CPROVER_assume(n_g >= gb_snap_g && n_g < VF_BIG - 1);   /* assumption: fewer than 10^5 generations */
  __CPROVER_assume(n_c >= 1 && n_c <= n_t && n_t < VF_BIG);
  if (n_g == gb_snap_g) __CPROVER_assume(n_c <= gb_snap_c && n_t <= gb_snap_t);
  vf_B->count_ = n_c; vf_B->generation_ = n_g; vf_B->threshold_ = n_t;
  gb_acq_c = n_c; gb_acq_g = n_g; gb_acq_t = n_t;
}
void vf_barrier_releasing(void)
{
  unsigned long c1 = vf_B->count_, g1 = vf_B->generation_, t1 = vf_B->threshold_;
  if (!(c1 == gb_acq_c && g1 == gb_acq_g && t1 == gb_acq_t)) {
    /* guarantee: the critical section performed exactly one arrival */
    _Bool thr_ok = gb_drop ? (t1 + 1 == gb_acq_t) : (t1 == gb_acq_t);
    _Bool step_a = g1 == gb_acq_g && c1 + 1 == gb_acq_c && c1 >= 1;
    _Bool step_b = g1 == gb_acq_g + 1 && gb_acq_c == 1 && c1 == t1;
    __CPROVER_assert(thr_ok, "[C09] Barrier: threshold_ changed by something other than one drop of wait_and_drop");
    __CPROVER_assert(step_a || step_b,
                     "[C09] Barrier: critical section is not one arrival (either count_ decremented and still >= 1, or the last "
                     "arrival: count_ was 1, generation_ advanced by one and count_ reset to the current threshold_)");
    __CPROVER_assert(gb_my_arr == 0, "[C09] Barrier: more than one arrival in one call");
    gb_my_arr = 1;
    gb_arrival_gen = gb_acq_g;
    if (step_b) {
      gb_completed_by_me = 1;
      __CPROVER_assert(gb_notified && gb_notified_g == g1,
                       "[M4] Barrier: generation_ changed but cv.notify_all was not called afterwards, before the mutex is released");
    }
  }
  __CPROVER_assert(B_INV || (gb_drop && gb_completed_by_me), "[M1] Barrier: monitor invariant at release");
  gb_snap_c = c1; gb_snap_g = g1; gb_snap_t = t1;
  gb_notified = 0;
}

/* ================= TriggerVariable ================= */
struct TriggerVariable *vf_T;
_Bool gt_dirty_trig, gt_dirty_act;  /* predicate became true, notify_all still owed */
_Bool gt_wrote_trig, gt_wrote_act;  /* ghost: the verified call wrote the variable */
_Bool gt_set_trig;                  /* ghost: the verified call set `triggered` (under triggerLock) */
int gt_order;                       /* ghost: 0 nothing, 1 `triggered` cleared, 2 `activated` set after the clear, 3 set without clear */
_Bool gt_saw_active;                /* ghost: a load of `activated` returned true */
_Bool gt_saw_act_locked;            /* ... while holding activeLock */
_Bool gt_saw_trig_any;              /* ghost: a load of `triggered` returned true */
_Bool gt_saw_trig_locked;           /* ... while holding triggerLock */
_Bool gt_last_trig_locked_valid, gt_last_trig_locked; /* last value of `triggered` read under triggerLock */
_Bool gt_last_act_locked_valid, gt_last_act_locked;   /* last value of `activated` read under activeLock */
_Bool gt_deactivated;               /* ghost: the verified call stored false to `activated` */
#define T_IDLE (!vf_T->triggerLock.excl_me && !vf_T->activeLock.excl_me && vf_T->triggerLock.shared_me == 0 && \
                vf_T->activeLock.shared_me == 0 && vf_held == 0 && !gt_dirty_trig && !gt_dirty_act)
#define T_FRESH (!gt_wrote_trig && !gt_wrote_act && !gt_set_trig && gt_order == 0 && !gt_saw_active && !gt_saw_act_locked && \
                 !gt_saw_trig_any && !gt_saw_trig_locked && !gt_last_trig_locked_valid && !gt_last_act_locked_valid && !gt_deactivated)
void vf_trig_env(void)
{
  /* rely: other threads write `triggered` only under triggerLock and `activated` only under
     activeLock (obligation M3 on every function of this class) */
  if (!vf_T->triggerLock.excl_me) vf_T->triggered.v = vf_nondet_bool();
  if (!vf_T->activeLock.excl_me) vf_T->activated.v = vf_nondet_bool();
}
void vf_trig_read(void *a, long val)
{
  if (a == (void *)&vf_T->activated) {
    if (val) gt_saw_active = 1;
    if (vf_T->activeLock.excl_me) { gt_last_act_locked_valid = 1; gt_last_act_locked = val != 0; if (val) gt_saw_act_locked = 1; }
  }
  if (a == (void *)&vf_T->triggered) {
    if (val) gt_saw_trig_any = 1;
    if (vf_T->triggerLock.excl_me) { gt_last_trig_locked_valid = 1; gt_last_trig_locked = val != 0; if (val) gt_saw_trig_locked = 1; }
  }
}

/* ================= hooks ================= */
_Bool g_l_read_locked;            /* counter_ was loaded under mtx since the mutex was (re)acquired */
void vf_hook_acquired(struct vf_mutex *m)
{
  if (vf_L && m == &vf_L->mtx) { vf_latch_env(); g_l_read_locked = 0; }
  if (vf_B && m == &vf_B->mtx) vf_barrier_acquired();
  if (vf_T && (m == &vf_T->triggerLock || m == &vf_T->activeLock)) vf_trig_env();
}
void vf_hook_releasing(struct vf_mutex *m)
{
  if (vf_L && m == &vf_L->mtx) {
    __CPROVER_assert(!g_dirty, "[M4] Latch: the wait predicate became true but notify_all was not called before the mutex is released");
    __CPROVER_assert(L_INV, "[M1] Latch: monitor invariant at release");
  }
  if (vf_B && m == &vf_B->mtx) vf_barrier_releasing();
  if (vf_T && m == &vf_T->triggerLock)
    __CPROVER_assert(!gt_dirty_trig, "[M4] TriggerVariable: `triggered` became true but cv_trigger.notify_all was not called before triggerLock is released");
  if (vf_T && m == &vf_T->activeLock)
    __CPROVER_assert(!gt_dirty_act, "[M4] TriggerVariable: `activated` became true but cv_active.notify_all was not called before activeLock is released");
}
void vf_hook_atomic_pre(void *a)
{
  if (vf_L && !vf_L->mtx.excl_me) vf_latch_env();
  if (vf_T) vf_trig_env();
}
void vf_hook_atomic_write(void *a, long o, long n)
{
  if (vf_L && a == (void *)&vf_L->counter_) {
    __CPROVER_assert(vf_L->mtx.excl_me, "[M3] Latch: counter_ (wait predicate variable) modified without holding mtx");
    __CPROVER_assert(n == o - 1, "[C10] Latch: an arrival decrements the counter by exactly one");
    __CPROVER_assume(g_arr < VF_BIG - 2);   /* assumption: fewer than 10^5 arrivals in total */
    g_arr = g_arr + 1;
    g_my_arr = g_my_arr + 1;
    if (o > 0 && n <= 0) g_dirty = 1;
    g_l_read_locked = 0;             /* the value read before is no longer current */
  }
  if (vf_T && a == (void *)&vf_T->triggered) {
    __CPROVER_assert(vf_T->triggerLock.excl_me, "[M3] TriggerVariable: `triggered` modified without holding triggerLock");
    gt_wrote_trig = 1;
    if (n) gt_set_trig = 1;
    if (!o && n) gt_dirty_trig = 1;
    if (!n && gt_order == 0) gt_order = 1;
  }
  if (vf_T && a == (void *)&vf_T->activated) {
    __CPROVER_assert(vf_T->activeLock.excl_me, "[M3] TriggerVariable: `activated` modified without holding activeLock");
    gt_wrote_act = 1;
    if (!o && n) gt_dirty_act = 1;
    if (n) gt_order = (gt_order == 1) ? 2 : 3;
    if (!n) {
      __CPROVER_assert(gt_saw_trig_any, "[C11] TriggerVariable: deactivated without a trigger having been observed first (reset must force a trigger)");
      gt_deactivated = 1;
    }
  }
}
void vf_hook_notify(struct vf_cv *c, int all)
{
  if (vf_L && c == &vf_L->cv && all) g_dirty = 0;
  if (vf_B && c == &vf_B->cv && all) { gb_notified = 1; gb_notified_g = vf_B->generation_; }
  if (vf_T && c == &vf_T->cv_trigger && all) gt_dirty_trig = 0;
  if (vf_T && c == &vf_T->cv_active && all) gt_dirty_act = 0;
}
void vf_hook_cv_wait(struct vf_cv *c, struct vf_lock *l)
{
  if (vf_L) {
    __CPROVER_assert(c == &vf_L->cv && l->m == &vf_L->mtx, "[M5] Latch: wait on the wrong condition variable / mutex");
    __CPROVER_assert(g_arr < g_init, "[C10] Latch: cv.wait entered although the count has been reached (would sleep on an open latch)");
    g_l_read_locked = 0;             /* the mutex is released during the wait */
  }
  if (vf_B) {
    __CPROVER_assert(c == &vf_B->cv && l->m == &vf_B->mtx, "[M5] Barrier: wait on the wrong condition variable / mutex");
  }
  if (vf_T) {
    __CPROVER_assert((c == &vf_T->cv_trigger && l->m == &vf_T->triggerLock) || (c == &vf_T->cv_active && l->m == &vf_T->activeLock),
                     "[M5] TriggerVariable: condition variable waited on with the mutex of the other predicate");
    if (c == &vf_T->cv_trigger) __CPROVER_assert(!vf_T->triggered.v, "[C11] TriggerVariable: blocks on cv_trigger although `triggered` is set (missed event)");
    if (c == &vf_T->cv_active) __CPROVER_assert(!vf_T->activated.v, "[C11] TriggerVariable: blocks on cv_active although `activated` is set (missed event)");
  }
}
#define VF_HOOK_ACQUIRED(m, s) vf_hook_acquired(m)
#define VF_HOOK_RELEASING(m, s) vf_hook_releasing(m)
#define VF_HOOK_ATOMIC_PRE(a) vf_hook_atomic_pre(a)
#define VF_HOOK_ATOMIC_WRITE(a, o, n, mo, rmw) vf_hook_atomic_write(a, o, n)
#define VF_HOOK_NOTIFY(c, all) vf_hook_notify(c, all)
void vf_latch_read(void *a)
{
  if (vf_L && a == (void *)&vf_L->counter_ && vf_L->mtx.excl_me) {
    /* while this thread holds mtx nobody can change counter_: re-reading it without having waited
       in between is a busy wait under the monitor mutex (no arrival can ever get in) */
    __CPROVER_assert(!g_l_read_locked, "[M5] Latch: counter_ is re-read under mtx without an intervening cv.wait (busy wait while holding the monitor mutex)");
    g_l_read_locked = 1;
  }
}
#define VF_HOOK_ATOMIC_READ(a, val, mo) do { if (vf_T) vf_trig_read(a, val); vf_latch_read(a); } while (0)
#define VF_HOOK_CV_WAIT(c, l) vf_hook_cv_wait(c, l)
''')

TAGMAP = {
    'M1': 'C09 C10 C11', 'M3': 'C09 C10 C11', 'M4': 'C09 C10 C11', 'M5': 'C09 C10 C11',
    'L2': 'C09 C10 C11', 'L5': 'C09 C10 C11', 'arith': 'C09 C10', 'noexcept': '',
}

LATCH_G = 'g_arr, g_my_arr, g_dirty, g_l_read_locked, ' + GHOST_ASSIGNS
LATCH_SETUP = 'vf_L = self; vf_B = 0; vf_T = 0;'
T_G = 'gt_dirty_trig, gt_dirty_act, gt_wrote_trig, gt_wrote_act, gt_set_trig, gt_order, gt_saw_active, gt_saw_act_locked, gt_saw_trig_any, gt_saw_trig_locked, gt_last_trig_locked_valid, gt_last_trig_locked, gt_last_act_locked_valid, gt_last_act_locked, gt_deactivated, ' + GHOST_ASSIGNS
T_SETUP = 'vf_T = self; vf_L = 0; vf_B = 0;'
T_REQ = 'vf_T == self && vf_L == 0 && vf_B == 0 && T_IDLE && T_FRESH && !vf_exc'
T_CNT = CNT_OK


def T_LOOP(lk, mtx):
    other = 'activeLock' if mtx == 'triggerLock' else 'triggerLock'
    return ('%s.owns && %s.m == &self->%s && self->%s.excl_me && !self->%s.excl_me && vf_held == 1 && !vf_exc && '
            '!gt_dirty_trig && !gt_dirty_act && !gt_wrote_trig && !gt_wrote_act && ' % (lk, lk, mtx, mtx, other)) + T_CNT


def T_LOOP_ASSIGNS(mtx):
    return ('self->triggered.v, self->activated.v, self->%s.excl_me, gt_saw_active, gt_saw_act_locked, gt_saw_trig_any, gt_saw_trig_locked, '
            'gt_last_trig_locked_valid, gt_last_trig_locked, gt_last_act_locked_valid, gt_last_act_locked, vf_n_block, vf_n_cvwait, vf_n_mutex_ops, vf_n_timed' % mtx)


FN = {
    # ---- constructors: the initial state is the one the other contracts start from
    r'Latch::ctor__int': dict(
        props='C10', requires=['!vf_exc'],
        ensures=[('C10', 'self->counter_.v == start && !self->mtx.excl_me && self->mtx.shared_me == 0 && !vf_exc', 'a new latch counts down from exactly `start` and is unlocked')],
        assigns='*self'),
    r'Barrier::ctor__size_t': dict(
        props='C09', requires=['!vf_exc'],
        ensures=[('C09', 'self->threshold_ == count && self->count_ == count && self->generation_ == 0 && !self->mtx.excl_me && self->mtx.shared_me == 0 && !vf_exc',
                  'a new barrier expects exactly `count` participants in generation 0 and is unlocked')],
        assigns='*self'),
    r'TriggerVariable::ctor__bool': dict(
        props='C11', requires=['!vf_exc'],
        ensures=[('C11', '(!self->activated.v) == (!active) && !self->triggered.v && !self->triggerLock.excl_me && !self->activeLock.excl_me && !vf_exc',
                  'a new trigger variable is active iff asked, never triggered, unlocked')],
        assigns='*self'),
    r'Latch::arrive': dict(
        props='C10', setup=LATCH_SETUP,
        requires=['vf_L == self && vf_B == 0 && vf_T == 0 && L_INV && L_IDLE && g_arr < VF_BIG - 2 && g_my_arr >= 0 && g_my_arr < 1000 && !vf_exc'],
        ensures=[('C10', 'L_INV && L_IDLE', 'monitor invariant re-established, mutex released, no notify owed'),
                 ('C10', 'g_my_arr == __CPROVER_old(g_my_arr) + 1', 'exactly one arrival'),
                 ('C10', 'g_arr >= __CPROVER_old(g_arr) + 1', 'arrival counted'),
                 ('C10', 'vf_n_cvwait == __CPROVER_old(vf_n_cvwait) && vf_n_yield == __CPROVER_old(vf_n_yield)', 'arrive does not wait for other arrivals'),
                 ('C10', '!vf_exc', 'no exception')],
        assigns='*self, ' + LATCH_G),
    r'Latch::wait': dict(
        props='C10', setup=LATCH_SETUP,
        requires=['vf_L == self && vf_B == 0 && vf_T == 0 && L_INV && L_IDLE && g_my_arr >= 0 && g_my_arr < 1000 && !vf_exc'],
        ensures=[('C10', 'L_INV && L_IDLE', 'monitor invariant, mutex released'),
                 ('C10', 'g_arr >= g_init', 'wait returns only after the initial count of arrivals'),
                 ('C10', 'g_my_arr == __CPROVER_old(g_my_arr)', 'wait does not arrive'),
                 ('C10', 'g_arr >= __CPROVER_old(g_arr)', 'arrivals are monotone'),
                 ('C10', '!vf_exc', 'no exception')],
        assigns='*self, ' + LATCH_G,
        loops={0: dict(
            invariant=[('C10', 'L_INV && !g_dirty && !g_l_read_locked && lck.owns && lck.m == &self->mtx && self->mtx.excl_me && vf_held == 1 && !vf_exc && '
                               'vf_n_block >= 0 && vf_n_block <= VF_BIG && vf_n_cvwait >= 0 && vf_n_cvwait <= VF_BIG && vf_n_mutex_ops >= 0 && vf_n_mutex_ops <= VF_BIG',
                        'locked re-check loop: invariant holds with the mutex held')],
            assigns='self->counter_.v, self->mtx.excl_me, g_arr, g_l_read_locked, vf_n_block, vf_n_cvwait, vf_n_mutex_ops')}),
    r'Latch::arrive_and_wait': dict(
        props='C10', setup=LATCH_SETUP,
        requires=['vf_L == self && vf_B == 0 && vf_T == 0 && L_INV && L_IDLE && g_arr < VF_BIG - 2 && g_my_arr >= 0 && g_my_arr < 999 && !vf_exc'],
        ensures=[('C10', 'L_INV && L_IDLE && g_arr >= g_init && g_my_arr == __CPROVER_old(g_my_arr) + 1 && !vf_exc',
                  'one arrival, then returns only when the count is reached')],
        assigns='*self, ' + LATCH_G),

    # ---------------------------------------------------------------- Barrier (C09)
    r'Barrier::(wait|wait_and_drop)': dict(
        props='C09',
        setup='vf_B = self; vf_L = 0; vf_T = 0; gb_drop = %DROP%;',
        requires=['vf_B == self && vf_L == 0 && vf_T == 0 && B_INV && B_IDLE && !vf_exc && gb_my_arr == 0 && !gb_completed_by_me && !gb_notified'
                  ' && B_FIELDS_EQ(gb_snap_c, gb_snap_g, gb_snap_t) && self->generation_ < VF_BIG - 2 && gb_drop == %DROP%'],
        ensures=[('C09', 'B_IDLE && !vf_exc', 'mutex released'),
                 ('C09', 'gb_my_arr == 1', 'the call performed exactly one arrival (checked transition, see model assertion)'),
                 ('C09', 'B_FIELDS_EQ(gb_snap_c, gb_snap_g, gb_snap_t)', 'M3: no write to count_/generation_/threshold_ after the last release'),
                 ('C09', 'self->generation_ > gb_arrival_gen', 'returns only after the generation of its own arrival has completed'),
                 ],
        assigns='*self, gb_snap_c, gb_snap_g, gb_snap_t, gb_acq_c, gb_acq_g, gb_acq_t, gb_my_arr, gb_arrival_gen, gb_completed_by_me, gb_notified_g, gb_notified, ' + GHOST_ASSIGNS,
        loops={0: dict(
            invariant=[('C09', 'lck.owns && lck.m == &self->mtx && self->mtx.excl_me && vf_held == 1 && !vf_exc && !gb_completed_by_me && '
                               'vf_n_block >= 0 && vf_n_block <= VF_BIG && vf_n_cvwait >= 0 && vf_n_cvwait <= VF_BIG && vf_n_mutex_ops >= 0 && vf_n_mutex_ops <= VF_BIG && '
                               'gb_acq_g < VF_BIG - 1 && '
                               '((gb_my_arr == 0 && gb_acq_g == lGen && self->generation_ == lGen && self->count_ + 1 == gb_acq_c && self->count_ >= 1 && self->count_ <= self->threshold_ && '
                               '  self->threshold_ + (gb_drop ? 1 : 0) == gb_acq_t && self->threshold_ >= 1 && gb_acq_t < VF_BIG && gb_acq_c <= gb_acq_t && gb_acq_c >= 1 && !gb_notified) || '
                               ' (gb_my_arr == 1 && gb_arrival_gen == lGen && B_FIELDS_EQ(gb_acq_c, gb_acq_g, gb_acq_t) && gb_acq_g >= lGen && B_INV && !gb_notified))',
                        'predicate loop: either my arrival is still inside its critical section, or it has been released and only the environment moved since')],
            assigns='self->count_, self->generation_, self->threshold_, self->mtx.excl_me, gb_snap_c, gb_snap_g, gb_snap_t, gb_acq_c, gb_acq_g, gb_acq_t, gb_my_arr, gb_arrival_gen, gb_notified, gb_notified_g, vf_n_block, vf_n_cvwait, vf_n_mutex_ops')}),

    # ---------------------------------------------------------------- TriggerVariable (C11)
    r'TriggerVariable::trigger': dict(
        props='C11', setup=T_SETUP,
        # no T_FRESH: trigger() is also called from reset(), so its contract is relative to the entry state
        requires=['vf_T == self && vf_L == 0 && vf_B == 0 && T_IDLE && !vf_exc && ' + CNT_OK],
        ensures=[('C11', 'T_IDLE && !vf_exc', 'both mutexes released, no notify owed'),
                 ('C11', '__CPROVER_return_value ==> (gt_set_trig && gt_saw_active)', 'true: it saw the variable active and set `triggered` (under triggerLock, notify_all before unlock: model assertions M3/M4)'),
                 ('C11', '!__CPROVER_return_value ==> (gt_wrote_trig == __CPROVER_old(gt_wrote_trig) && gt_set_trig == __CPROVER_old(gt_set_trig))', 'false: inactive, nothing written'),
                 ('C11', '__CPROVER_old(gt_saw_active) ==> gt_saw_active', 'ghost flags are sticky'),
                 ('', CNT_OK, 'ghost counters stay in range')],
        # frame: trigger never touches `activated`, its lock, or the ghost state of the activation monitor
        assigns='*self, gt_dirty_trig, gt_wrote_trig, gt_set_trig, gt_saw_active, ' + GHOST_ASSIGNS),
    r'TriggerVariable::activate': dict(
        props='C11', setup=T_SETUP, requires=[T_REQ],
        ensures=[('C11', 'T_IDLE && !vf_exc', 'both mutexes released, no notify owed'),
                 ('C11', '__CPROVER_return_value ==> gt_order == 2', 'true: `triggered` cleared (under triggerLock) before `activated` is set (under activeLock)'),
                 ('C11', '!__CPROVER_return_value ==> (!gt_wrote_trig && !gt_wrote_act && gt_saw_active)', 'false: was already active, no effect'),
                 ('C11', '!gt_set_trig && !gt_deactivated', 'activate never sets `triggered` nor deactivates')],
        assigns='*self, ' + T_G),
    r'TriggerVariable::(isTriggered|isActive)': dict(
        props='C11', no_replace=True, setup=T_SETUP, requires=[T_REQ],
        ensures=[('C11', 'T_IDLE && !vf_exc && !gt_wrote_trig && !gt_wrote_act && vf_n_mutex_ops == __CPROVER_old(vf_n_mutex_ops)', 'pure observer')],
        assigns='*self, ' + T_G),
    r'TriggerVariable::wait': dict(
        props='C11', setup=T_SETUP, requires=[T_REQ],
        ensures=[('C11', 'T_IDLE && !vf_exc && !gt_wrote_trig && !gt_wrote_act', 'mutex released; a wait writes nothing'),
                 ('C11', 'gt_saw_active ==> gt_saw_trig_locked', 'on an activated variable wait returns only after observing `triggered` under triggerLock'),
                 ('C11', '__CPROVER_return_value', 'returns true')],
        assigns='*self, ' + T_G,
        loops={0: dict(invariant=[('C11', T_LOOP('lk', 'triggerLock'), 'predicate loop under triggerLock')], assigns=T_LOOP_ASSIGNS('triggerLock'))}),
    r'TriggerVariable::wait_for': dict(
        props='C11', setup=T_SETUP, requires=[T_REQ],
        ensures=[('C11', 'T_IDLE && !vf_exc && !gt_wrote_trig && !gt_wrote_act', 'mutex released; a wait writes nothing'),
                 ('C11', '(__CPROVER_return_value && gt_saw_active) ==> gt_saw_trig_locked', 'true on an activated variable only after observing `triggered` under triggerLock'),
                 ('C11', '!__CPROVER_return_value ==> (gt_last_trig_locked_valid && !gt_last_trig_locked)', 'false only if `triggered` was false at the locked evaluation that ended the wait')],
        assigns='*self, ' + T_G,
        loops={0: dict(invariant=[('C11', T_LOOP('lk', 'triggerLock'), 'predicate loop under triggerLock')], assigns=T_LOOP_ASSIGNS('triggerLock'))}),
    r'TriggerVariable::waitActivation': dict(
        props='C11', setup=T_SETUP, requires=[T_REQ],
        ensures=[('C11', 'T_IDLE && !vf_exc && !gt_wrote_trig && !gt_wrote_act', 'mutex released; a wait writes nothing'),
                 ('C11', 'gt_saw_act_locked', 'returns only after observing `activated` under activeLock')],
        assigns='*self, ' + T_G,
        loops={0: dict(invariant=[('C11', T_LOOP('lk', 'activeLock'), 'predicate loop under activeLock')], assigns=T_LOOP_ASSIGNS('activeLock'))}),
    r'TriggerVariable::wait_forActivation': dict(
        props='C11', setup=T_SETUP, requires=[T_REQ],
        ensures=[('C11', 'T_IDLE && !vf_exc && !gt_wrote_trig && !gt_wrote_act', 'mutex released; a wait writes nothing'),
                 ('C11', '__CPROVER_return_value ==> gt_saw_act_locked', 'true only after observing `activated` under activeLock'),
                 ('C11', '!__CPROVER_return_value ==> (gt_last_act_locked_valid && !gt_last_act_locked)', 'false only if not activated at the locked evaluation that ended the wait')],
        assigns='*self, ' + T_G,
        loops={0: dict(invariant=[('C11', T_LOOP('lk', 'activeLock'), 'predicate loop under activeLock')], assigns=T_LOOP_ASSIGNS('activeLock'))}),
    r'TriggerVariable::reset': dict(
        props='C11', setup=T_SETUP, requires=[T_REQ],
        ensures=[('C11', 'T_IDLE && !vf_exc', 'both mutexes released, never nested (model assertion L5), no notify owed'),
                 ('C11', '!self->activated.v && gt_last_act_locked_valid', 'after reset the variable is inactive (as of the release of activeLock)'),
                 ('C11', 'gt_deactivated ==> gt_saw_trig_any', 'an active variable is deactivated only after a trigger was observed (forced through trigger())'),
                 ('C11', 'gt_order == 0', 'reset never activates')],
        assigns='*self, ' + T_G,
        loops={0: dict(invariant=[('C11', 'lk.owns && lk.m == &self->activeLock && self->activeLock.excl_me && !self->triggerLock.excl_me && self->triggerLock.shared_me == 0 && self->activeLock.shared_me == 0 && '
                                          'vf_held == 1 && !vf_exc && !gt_dirty_trig && !gt_dirty_act && !gt_wrote_act && gt_order == 0 && !gt_deactivated && gt_last_act_locked_valid && ' + T_CNT,
                                   'force-trigger loop: activeLock held at the loop head, triggerLock never held together with it')],
                       assigns='*self, lk.owns, ' + T_G)}),
}

_b = FN.pop(r'Barrier::(wait|wait_and_drop)')
for _nm, _dv in (('wait', '0'), ('wait_and_drop', '1')):
    _e = dict(_b)
    _e['setup'] = _b['setup'].replace('%DROP%', _dv)
    _e['requires'] = [r.replace('%DROP%', _dv) for r in _b['requires']]
    FN['Barrier::' + _nm] = _e
