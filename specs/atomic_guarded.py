"""Unit `atomic_guarded`: atomic_guarded.hpp — Scheme L + functional contracts over the payload's
abstract value (C15 atomic register; C01-style exclusion; C20 exceptional exits)."""
from _common import GHOST_ASSIGNS
from _lockspec import GHOST, TAGMAP, whole_object_ops, GSET, one_cs, R3, G3
from guarded import merge

UNIT = dict(
    name='atomic_guarded',
    driver='drivers/atomic_guarded.cpp',
    names='#define std_swap__vf_payload_ref_vf_payload_ref vf_payload_swap\n#define ext_exchange__vf_payload_ref_vf_payload_rref vf_payload_std_exchange\n',
    assumptions=[
        'std::mutex, lock_guard behave as the models in models/models.c; std::swap<T> is modelled by its specified effect (user move operations that may throw)',
        'linearizability argument: each operation is exactly one critical section of the object\'s mutex containing all its accesses (proved), hence it takes effect atomically at any point inside it (meta-theorem L)',
        'instantiation verified: T = abstract payload with value equality, M = std::mutex',
        'T\'s move constructor may leave its source in an unspecified (moved-from) state; T\'s assignments leave their source intact and, when they throw, leave their target unchanged or marked torn',
    ],
    ghost=GHOST + r'''
/* std::exchange(obj, std::move(nv)): move-constructs the result from obj (obj is then moved-from: its
   value is unspecified), then move-assigns nv to obj; either user operation may throw */
void vf_payload__ctor_move(struct vf_payload *self, struct vf_payload *o);
struct vf_payload *vf_payload__op_assign__1(struct vf_payload *self, struct vf_payload *o);
void vf_payload_std_exchange(struct vf_payload *ret, struct vf_payload *obj, struct vf_payload *nv)
{
  vf_payload__ctor_move(ret, obj);
  if (vf_exc) return;
  obj->v = vf_nondet_int();          /* moved-from */
  (void)vf_payload__op_assign__1(obj, nv);
  if (vf_exc) { struct vf_payload *dead = ret; dead->life = VF_DEAD; }   /* the only copy of the old value dies with the unwinding */
}
''')

FN = {}
merge(FN, whole_object_ops('atomic_guarded', 'G(self)', GSET))
for _k in list(FN):
    for _e in (FN[_k] if isinstance(FN[_k], list) else [FN[_k]]):
        _e['props'] = 'C15 C20'
PRE = 'G(self) && FREE(self->m_mutex) && vf_held == 0 && !vf_exc && !vf_user_threw && ' + R3
FN[r'atomic_guarded::exchange'] = dict(
    props='C15 C20', setup=GSET,
    requires=[PRE + ' && newValue != &self->m_obj && newValue->life == VF_LIVE && newValue->guard == 0 && vf_ret != newValue && vf_ret != &self->m_obj'],
    ensures=[('C15 C20', one_cs(False), 'exactly one critical section; released on normal and exceptional exit'),
             ('C15', '!vf_exc ==> (vf_ret->v == vf_cs_entry_v && vf_ret->life == VF_LIVE)', 'exchange returns the value it replaced'),
             ('C15', '!vf_exc ==> self->m_obj.v == __CPROVER_old(newValue->v)', 'and installs the new value'),
             ('C20', 'vf_exc ==> (self->m_obj.v == vf_cs_entry_v || self->m_obj.torn || self->m_obj.v == __CPROVER_old(newValue->v))',
              'if user code throws, the stored value is the old one, or already the complete new one (the throw came from building the return value), or whatever T\'s own failed assignment leaves (its guarantee) - never a moved-from husk'),
             ('C20', 'vf_user_threw == (vf_exc != 0)', 'an exception thrown by user code propagates; nothing else throws'),
             ('C15 C20', 'G(self)', 'wrapper invariant'), ('', G3, 'counters')],
    assigns='*vf_ret, *newValue, self->m_mutex, self->m_obj.v, self->m_obj.torn, ' + GHOST_ASSIGNS)
FN[r'atomic_guarded::compare_exchange'] = dict(
    props='C15 C20', setup=GSET,
    requires=[PRE + ' && expected != &self->m_obj && desired != &self->m_obj && expected != desired && expected->life == VF_LIVE && desired->life == VF_LIVE && expected->guard == 0 && desired->guard == 0'],
    ensures=[('C15 C20', one_cs(False), 'compare and assign/report happen inside one critical section; released on normal and exceptional exit'),
             ('C15', '(!vf_exc && __CPROVER_return_value) ==> (vf_cs_entry_v == __CPROVER_old(expected->v) && self->m_obj.v == __CPROVER_old(desired->v) && expected->v == __CPROVER_old(expected->v))',
              'succeeds exactly when the current value equals the expected one, and then installs the desired value'),
             ('C15', '(!vf_exc && !__CPROVER_return_value) ==> (vf_cs_entry_v != __CPROVER_old(expected->v) && expected->v == vf_cs_entry_v && self->m_obj.v == vf_cs_entry_v)',
              'otherwise reports the current value in `expected` and leaves the object unchanged'),
             ('C20', 'vf_exc ==> (self->m_obj.v == vf_cs_entry_v || self->m_obj.torn || self->m_obj.v == __CPROVER_old(desired->v))',
              'if the comparison or an assignment throws, the stored value is the old one, the complete desired one, or what T\'s failed assignment leaves'),
             ('C20', 'vf_user_threw == (vf_exc != 0)', 'an exception thrown by user code propagates; nothing else throws'),
             ('C15 C20', 'G(self)', 'wrapper invariant'), ('', G3, 'counters')],
    assigns='*expected, desired->v, desired->torn, self->m_mutex, self->m_obj.v, self->m_obj.torn, ' + GHOST_ASSIGNS)
