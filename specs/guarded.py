"""Unit `guarded`: handles.hpp (exclusive side), guarded.hpp, guarded_opt.hpp — Scheme L
(lock discipline, DESIGN.md section 4) for M in {std::mutex, std::timed_mutex}."""
from _lockspec import (GHOST, TAGMAP, handle_entries, try_handle_entries, wrapper_acq_entries,
                       whole_object_ops, GSET, GOSET)

UNIT = dict(
    name='guarded',
    driver='drivers/guarded.cpp',
    assumptions=[
        'std::mutex/timed_mutex, unique_lock, lock_guard behave as the models in models/models.c (try_lock may fail spuriously; timed forms return within the given time)',
        'meta-theorem L (DESIGN.md 4): if every access to the guarded object happens with its mutex held in the right mode, conflicting accesses never overlap and are ordered by happens-before',
        'instantiations verified: T = abstract payload (copy/move/assign are user code that may throw), M in {std::mutex, std::timed_mutex}; other T/M unverified',
        'client obligation (non-recursive mutex): a thread does not call a blocking acquisition on a wrapper it already holds a handle of',
        'CBMC cannot dereference a pointer that a replaced contract returned inside a struct; wrapper postconditions therefore state the handle invariant in terms of the wrapper\'s own fields',
    ],
    ghost=GHOST)


def merge(dst, src):
    for k, v in src.items():
        vs = v if isinstance(v, list) else [v]
        if k in dst:
            old = dst[k] if isinstance(dst[k], list) else [dst[k]]
            dst[k] = old + vs
        else:
            dst[k] = vs if len(vs) > 1 else vs[0]


FN = {}
merge(FN, handle_entries('lock_handle', 'C01 C08'))
merge(FN, try_handle_entries('try_lock_handle', 'C01 C08'))
ACQ = [('lock', 'block', None), ('try_lock', 'try', None), ('try_lock_for', 'timed', None), ('try_lock_until', 'timed', None)]
merge(FN, wrapper_acq_entries('guarded', ACQ, 'C01 C08', 'G(self)', GSET))
merge(FN, whole_object_ops('guarded', 'G(self)', GSET))
merge(FN, wrapper_acq_entries('guarded_opt', ACQ, 'C01 C08', 'GO(self)', GOSET, opt=True))
merge(FN, whole_object_ops('guarded_opt', 'GO(self) && self->enabled', GOSET))
