"""Unit `guarded`: handles.hpp (exclusive side), guarded.hpp, guarded_opt.hpp — Scheme L
(lock discipline, DESIGN.md section 4) for M in {std::mutex, std::timed_mutex}."""
from _common import GHOST_BOUNDS, GHOST_ASSIGNS, CNT_OK, CNT_R, CNT_G

UNIT = dict(
    name='guarded',
    driver='drivers/guarded.cpp',
    assumptions=[
        'std::mutex/timed_mutex, unique_lock, lock_guard behave as the models in models/models.c (try_lock may fail spuriously; timed forms return within the given time)',
        'meta-theorem L (DESIGN.md 4): if every access to the guarded object happens with its mutex held in the right mode, conflicting accesses never overlap and are ordered by happens-before',
        'instantiations verified: T = abstract payload (copy/move/assign are user code that may throw), M in {std::mutex, std::timed_mutex}; other T/M unverified',
        'client obligation (non-recursive mutex): a thread does not call a blocking acquisition on a wrapper it already holds a handle of',
    ],
    ghost=GHOST_BOUNDS + r'''
/* well-formed lock object: an owning lock names a mutex this thread holds exclusively */
#define W(l) (!(l).owns || ((l).m != 0 && (l).m->excl_me))
/* handle invariant H (L3): a non-null handle either guards an unprotected object without
   owning anything (locking disabled) or owns exactly the mutex that protects its object */
#define H(h) (W((h).m_handle_lock) && ((h).data == 0 || ((h).data->guard == 0 && !(h).m_handle_lock.owns) || \
              ((h).m_handle_lock.owns && (h).m_handle_lock.m == (h).data->guard)))
/* wrapper invariants */
#define G(s) ((s)->m_obj.guard == &(s)->m_mutex && (s)->m_mutex.guards == &(s)->m_obj && (s)->m_obj.life == VF_LIVE)
#define GO(s) ((s)->m_obj.life == VF_LIVE && ((s)->enabled ? ((s)->m_obj.guard == &(s)->m_mutex && (s)->m_mutex.guards == &(s)->m_obj) \
                                                            : ((s)->m_obj.guard == 0 && (s)->m_mutex.guards == 0)))
#define FREE(m) (!(m).excl_me && (m).shared_me == 0)
''')

TAGMAP = {'L1': 'C01 C02 C15', 'L2': 'C01 C08 C20', 'L5': 'C01', 'life': 'C15 C20', 'noexcept': 'C20'}

R1, G1, R2, G2, R3, G3 = CNT_R(10), CNT_G(3), CNT_R(100), CNT_G(8), CNT_R(1000), CNT_G(20)


def HSET(n, lock='m_handle_lock'):
    """harness set-up: give the pointer fields of handle *n valid (or null) targets"""
    return ('struct vf_mutex %(n)s_mx; struct vf_payload %(n)s_po; %(n)s_mx.guards = vf_nondet_bool() ? &%(n)s_po : 0; '
            '%(n)s_po.guard = vf_nondet_bool() ? &%(n)s_mx : 0; %(n)s->%(l)s.m = vf_nondet_bool() ? &%(n)s_mx : 0; '
            '%(n)s->data = vf_nondet_bool() ? &%(n)s_po : 0;') % dict(n=n, l=lock)


MSET = lambda n: 'struct vf_payload %s_po; %s->guards = vf_nondet_bool() ? &%s_po : 0;' % (n, n, n)
GSET = 'self->m_obj.guard = &self->m_mutex; self->m_mutex.guards = &self->m_obj;'
GOSET = 'if (self->enabled) { self->m_obj.guard = &self->m_mutex; self->m_mutex.guards = &self->m_obj; } else { self->m_obj.guard = 0; self->m_mutex.guards = 0; }'

HL = 'self->m_handle_lock'


def handle_entries(hname, props, lock='m_handle_lock', shared=False):
    """contracts of lock_handle / shared_lock_handle members; `shared`: the lock may be a shared_lock"""
    L = 'self->' + lock
    S = 'src->' + lock
    held = '(%s.m->excl_me || %s.m->shared_me > 0)' % (L, L)
    rel_cnt = 'vf_n_rel == __CPROVER_old(vf_n_rel) + (__CPROVER_old(%s.owns) ? 1 : 0)' % L
    held_cnt = 'vf_held == __CPROVER_old(vf_held) - (__CPROVER_old(%s.owns) ? 1 : 0)' % L
    freed = '(__CPROVER_old(%s.owns) ==> !__CPROVER_old(%s.m)->excl_me)' % (L, L)
    WL = 'WS(%s)' % L if shared else 'W(%s)' % L
    WSRC = 'WS(%s)' % S if shared else 'W(%s)' % S
    mtx_assign = '%s.owns: *(%s.m)' % (L, L)
    e = {}
    e[hname + r'::unlock'] = dict(
        props=props, setup=HSET('self', lock),
        requires=[WL + ' && !vf_exc && (!%s.owns || vf_held >= 1) && ' % L + R1],
        ensures=[('C08', 'self->data == 0 && !%s.owns' % L, 'after unlock() the handle is null and owns nothing'),
                 ('C01 C02 C08', rel_cnt + ' && ' + held_cnt + ' && ' + freed, 'the lock is released exactly once iff it was owned'),
                 ('C08', '!vf_exc && ' + G1, 'no exception')],
        assigns=['*self, ' + GHOST_ASSIGNS, mtx_assign])
    e[hname + r'::dtor'] = dict(
        props=props, setup=HSET('self', lock),
        requires=[WL + ' && !vf_exc && (!%s.owns || vf_held >= 1) && ' % L + R1],
        ensures=[('C01 C02 C08', rel_cnt + ' && ' + held_cnt + ' && ' + freed, 'the destructor releases the lock exactly once iff it is owned'),
                 ('C08', '!vf_exc && ' + G1, 'no exception')],
        assigns=['*self, ' + GHOST_ASSIGNS, mtx_assign])
    SRC = 'vf_unnamed1_->' + lock
    e[hname + r'::ctor_move'] = dict(
        props=props, setup=HSET('vf_unnamed1_', lock),
        requires=[WSRC.replace('src->', 'vf_unnamed1_->') + ' && self != vf_unnamed1_ && !vf_exc'],
        ensures=[('C08', 'self->data == __CPROVER_old(vf_unnamed1_->data) && %s.owns == __CPROVER_old(%s.owns) && %s.m == __CPROVER_old(%s.m)' % (L, SRC, L, SRC),
                  'the new handle takes over pointer and lock'),
                 ('C08', '!%s.owns && %s.m == 0' % (SRC, SRC), 'the moved-from handle owns nothing (it can be destroyed without releasing)'),
                 ('C01 C02 C08', 'vf_n_mutex_ops == __CPROVER_old(vf_n_mutex_ops) && vf_held == __CPROVER_old(vf_held) && vf_n_rel == __CPROVER_old(vf_n_rel)', 'a move performs no mutex operation'),
                 ('', '!vf_exc', 'noexcept')],
        assigns='*self, *vf_unnamed1_')
    e[hname + r'::op_assign_move'] = dict(
        props=props, setup=HSET('self', lock) + ' ' + HSET('vf_unnamed1_', lock),
        requires=[WL + ' && ' + WSRC.replace('src->', 'vf_unnamed1_->') + ' && self != vf_unnamed1_ && !vf_exc && (!%s.owns || vf_held >= 1) && ' % L + R1 +
                  ' && (!(%s.owns && vf_unnamed1_->%s.owns) || %s.m != vf_unnamed1_->%s.m)' % (L, lock, L, lock)],
        ensures=[('C08', 'self->data == __CPROVER_old(vf_unnamed1_->data) && %s.owns == __CPROVER_old(vf_unnamed1_->%s.owns) && %s.m == __CPROVER_old(vf_unnamed1_->%s.m)' % (L, lock, L, lock),
                  'the target takes over pointer and lock'),
                 ('C08', '!vf_unnamed1_->%s.owns && vf_unnamed1_->%s.m == 0' % (lock, lock), 'the moved-from handle owns nothing'),
                 ('C01 C02 C08', rel_cnt + ' && ' + held_cnt + ' && ' + freed, "the target's previous lock is released exactly once iff it was owned"),
                 ('', '__CPROVER_return_value == self && !vf_exc && ' + G1, 'returns *this')],
        assigns=['*self, *vf_unnamed1_, ' + GHOST_ASSIGNS, mtx_assign])
    e[hname + r'::(op_arrow|op_deref)'] = dict(
        props=props, requires=['!vf_exc'],
        ensures=[('C08', '__CPROVER_return_value == self->data && !vf_exc', 'returns the stored pointer, no effects')],
        assigns='')
    e[hname + r'::op_bool'] = dict(
        props=props, requires=['!vf_exc'],
        ensures=[('C08', '__CPROVER_return_value == (self->data != 0) && !vf_exc', 'true iff the handle is non-null')],
        assigns='')
    return e


def acq_post(ret, obj, mtx, mode):
    """postcondition pieces of acquisition functions. mode: 'block' | 'try' | 'timed'"""
    L = ret + '->m_handle_lock'
    got = '(%s->data == %s && %s.owns && %s.m == %s && (%s)->excl_me)' % (ret, obj, L, L, mtx, mtx)
    miss = '(%s->data == 0 && !%s.owns)' % (ret, L)
    cnt = {'block': 'vf_n_block == __CPROVER_old(vf_n_block) + 1 && vf_n_try == __CPROVER_old(vf_n_try) && vf_n_timed == __CPROVER_old(vf_n_timed)',
           'try': 'vf_n_block == __CPROVER_old(vf_n_block) && vf_n_try == __CPROVER_old(vf_n_try) + 1 && vf_n_timed == __CPROVER_old(vf_n_timed)',
           'timed': 'vf_n_block == __CPROVER_old(vf_n_block) && vf_n_try == __CPROVER_old(vf_n_try) && vf_n_timed == __CPROVER_old(vf_n_timed) + 1'}[mode]
    held = 'vf_held == __CPROVER_old(vf_held) + (%s.owns ? 1 : 0) && vf_n_rel == __CPROVER_old(vf_n_rel)' % L
    return got, miss, cnt, held


FN = {}
FN.update(handle_entries('lock_handle', 'C01 C08'))

# ---- lock_handle constructors
FN[r'lock_handle::ctor__pointer_std_unique_lock_.*'] = dict(
    props='C01 C08', setup='struct vf_mutex lock_mx; lock_mx.guards = 0; lock->m = vf_nondet_bool() ? &lock_mx : 0;',
    requires=['W(*lock) && &self->m_handle_lock != lock && !vf_exc'],
    ensures=[('C08', 'self->data == val && self->m_handle_lock.owns == __CPROVER_old(lock->owns) && self->m_handle_lock.m == __CPROVER_old(lock->m)', 'stores the pointer and takes the lock over'),
             ('C08', '!lock->owns && lock->m == 0', 'the by-value lock argument is left empty'),
             ('C01 C08', 'vf_n_mutex_ops == __CPROVER_old(vf_n_mutex_ops) && vf_held == __CPROVER_old(vf_held)', 'no mutex operation'),
             ('', '!vf_exc', 'does not throw')],
    assigns='*self, *lock')
FN[r'lock_handle::ctor__pointer_std_(timed_)?mutex_ref'] = dict(
    props='C01 C08', setup=MSET('mut'),
    requires=['FREE(*mut) && vf_held == 0 && !vf_exc && ' + R1],
    ensures=[('C01 C08', 'self->data == val && self->m_handle_lock.owns && self->m_handle_lock.m == mut && mut->excl_me', 'blocking constructor: owns the given mutex'),
             ('C01 C08', 'vf_held == 1 && vf_n_acq_excl == __CPROVER_old(vf_n_acq_excl) + 1 && vf_n_rel == __CPROVER_old(vf_n_rel)', 'exactly one exclusive acquisition, nothing released'),
             ('C08', 'vf_n_block == __CPROVER_old(vf_n_block) + 1 && vf_n_try == __CPROVER_old(vf_n_try) && vf_n_timed == __CPROVER_old(vf_n_timed)', 'a blocking acquisition'),
             ('', '!vf_exc && mut->guards == __CPROVER_old(mut->guards) && ' + G1, 'frame')],
    assigns=['*self, *mut, ' + GHOST_ASSIGNS, 'mut->guards != 0: mut->guards->v'])

# ---- try_lock_handle family
for _pat, _mode in ((r'try_lock_handle', 'try'), (r'try_lock_handle_for', 'timed'), (r'try_lock_handle_until', 'timed')):
    got, miss, cnt, held = acq_post('vf_ret', 'obj', 'gmutex', _mode)
    FN[_pat] = dict(
        props='C01 C08', setup=MSET('gmutex'),
        requires=['!vf_exc && vf_held >= 0 && vf_held < VF_MAX_HELD && ' + R2],
        ensures=[('C01 C08', '(obj != 0 ==> (%s || %s)) && (obj == 0 ==> vf_ret->data == 0)' % (got, miss), 'non-null exactly when the lock was obtained'),
                 ('C01 C08', 'vf_ret->m_handle_lock.owns ==> (vf_ret->m_handle_lock.m == gmutex && gmutex->excl_me)', 'an owning result owns the given mutex'),
                 ('C08', cnt, 'never blocks beyond the given time'),
                 ('C01 C08', held, 'lock balance'),
                 ('', '!vf_exc && gmutex->guards == __CPROVER_old(gmutex->guards) && ' + G2, 'frame')],
        assigns=['*vf_ret, *gmutex, ' + GHOST_ASSIGNS, 'gmutex->guards != 0: gmutex->guards->v'])

# ---- guarded<T,M>
got, miss, cnt_b, held = acq_post('vf_ret', '&self->m_obj', '&self->m_mutex', 'block')
FN[r'guarded::lock'] = dict(
    props='C01 C08', setup=GSET,
    requires=['G(self) && FREE(self->m_mutex) && vf_held == 0 && !vf_exc && ' + R3],
    ensures=[('C01 C08', got, "lock() returns a non-null handle owning this wrapper's own mutex"),
             ('C08', cnt_b, 'one blocking acquisition'),
             ('C01 C08', held + ' && G(self) && !vf_exc && ' + G3, 'lock balance, invariant')],
    assigns='*vf_ret, self->m_mutex, self->m_obj.v, ' + GHOST_ASSIGNS)
for _m, _mode in (('try_lock', 'try'), ('try_lock_for', 'timed'), ('try_lock_until', 'timed')):
    got, miss, cnt, held = acq_post('vf_ret', '&self->m_obj', '&self->m_mutex', _mode)
    FN[r'guarded::' + _m] = dict(
        props='C01 C08', setup=GSET,
        requires=['G(self) && vf_held == 0 && !vf_exc && ' + R3],
        ensures=[('C01 C08', '(%s || %s)' % (got, miss), 'non-null handle (to the wrapped object, owning this mutex) iff the lock was obtained, else null'),
                 ('C08', cnt, 'never blocks beyond the given time'),
                 ('C01 C08', held + ' && G(self) && !vf_exc && ' + G3, 'lock balance, invariant')],
        assigns='*vf_ret, self->m_mutex, self->m_obj.v, ' + GHOST_ASSIGNS)

ONE_CS = ('vf_n_acq_excl == __CPROVER_old(vf_n_acq_excl) + 1 && vf_n_rel == __CPROVER_old(vf_n_rel) + 1 && vf_held == 0 && FREE(self->m_mutex)')


def whole_object_ops(cls, inv, setup):
    e = {}
    e[cls + r'::load'] = dict(
        props='C01 C15 C20', setup=setup,
        requires=[inv + ' && FREE(self->m_mutex) && vf_held == 0 && !vf_exc && ' + R3],
        ensures=[('C01 C15 C20', ONE_CS, 'exactly one critical section; the lock is released on normal and on exceptional exit'),
                 ('C15', '!vf_exc ==> (vf_ret->v == vf_cs_entry_v && vf_ret->life == VF_LIVE)', 'load returns the value the object had inside the critical section'),
                 ('C15 C20', inv + ' && self->m_obj.v == vf_cs_entry_v', 'the object is not modified by load'),
                 ('', G3, 'counters')],
        assigns='*vf_ret, self->m_mutex, self->m_obj.v, ' + GHOST_ASSIGNS)
    for m in ('store', 'op_assign'):
        e[cls + '::' + m] = dict(
            props='C01 C15 C20', setup=setup,
            requires=[inv + ' && FREE(self->m_mutex) && vf_held == 0 && !vf_exc && newObj != &self->m_obj && newObj->life == VF_LIVE && newObj->guard == 0 && ' + R3],
            ensures=[('C01 C15 C20', ONE_CS, 'exactly one critical section; the lock is released on normal and on exceptional exit'),
                     ('C15', '!vf_exc ==> self->m_obj.v == __CPROVER_old(newObj->v)', 'store/assignment sets the value'),
                     ('C20', 'vf_exc ==> (self->m_obj.v == vf_cs_entry_v || self->m_obj.torn || self->m_obj.v == __CPROVER_old(newObj->v))', "a throwing assignment leaves T in whatever state T's own guarantee gives, nothing else"),
                     ('C15 C20', inv, 'wrapper invariant'),
                     ('', G3, 'counters')] + ([('C15', '!vf_exc ==> __CPROVER_return_value == self', 'returns *this')] if m == 'op_assign' else []),
            assigns='self->m_mutex, self->m_obj.v, self->m_obj.torn, newObj->v, newObj->torn, ' + GHOST_ASSIGNS)
    return e


FN.update(whole_object_ops('guarded', 'G(self)', GSET))

# ---- guarded_opt<T,M>
got, miss, cnt_b, held = acq_post('vf_ret', '&self->m_obj', '&self->m_mutex', 'block')
DIS = '(vf_ret->data == &self->m_obj && !vf_ret->m_handle_lock.owns && vf_n_mutex_ops == __CPROVER_old(vf_n_mutex_ops) && vf_n_block == __CPROVER_old(vf_n_block) && vf_n_timed == __CPROVER_old(vf_n_timed) && vf_held == __CPROVER_old(vf_held))'
FN[r'guarded_opt::lock'] = dict(
    props='C01 C08', setup=GOSET,
    requires=['GO(self) && FREE(self->m_mutex) && vf_held == 0 && !vf_exc && ' + R3],
    ensures=[('C01 C08', 'self->enabled ==> (%s && %s && %s)' % (got, cnt_b, held), 'enabled: as guarded::lock'),
             ('C08', '!self->enabled ==> ' + DIS, 'disabled: usable handle immediately, no mutex operation at all'),
             ('C01 C08', 'GO(self) && !vf_exc && ' + G3, 'wrapper invariant')],
    assigns='*vf_ret, self->m_mutex, self->m_obj.v, ' + GHOST_ASSIGNS)
for _m, _mode in (('try_lock', 'try'), ('try_lock_for', 'timed'), ('try_lock_until', 'timed')):
    got, miss, cnt, held = acq_post('vf_ret', '&self->m_obj', '&self->m_mutex', _mode)
    FN[r'guarded_opt::' + _m] = dict(
        props='C01 C08', setup=GOSET,
        requires=['GO(self) && vf_held == 0 && !vf_exc && ' + R3],
        ensures=[('C01 C08', 'self->enabled ==> ((%s || %s) && %s && %s)' % (got, miss, cnt, held), 'enabled: as guarded::try_lock*'),
                 ('C08', '!self->enabled ==> ' + DIS, 'disabled: usable handle immediately, no mutex operation at all'),
                 ('C01 C08', 'GO(self) && !vf_exc && ' + G3, 'wrapper invariant')],
        assigns='*vf_ret, self->m_mutex, self->m_obj.v, ' + GHOST_ASSIGNS)
FN.update(whole_object_ops('guarded_opt', 'GO(self) && self->enabled', GOSET))
