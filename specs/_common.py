"""Shared pieces of the unit specs."""
GHOST_BOUNDS = r'''
#define VF_B(x) __CPROVER_assume((x) >= 0 && (x) < 1000)
#define VF_GHOST_BOUNDS() do { VF_B(vf_held); VF_B(vf_n_acq_excl); VF_B(vf_n_acq_shared); VF_B(vf_n_rel); \
  VF_B(vf_n_block); VF_B(vf_n_timed); VF_B(vf_n_try); VF_B(vf_n_cvwait); VF_B(vf_n_yield); VF_B(vf_n_mutex_ops); \
  VF_B(vf_n_notify); } while (0)
'''
GHOST_ASSIGNS = 'vf_held, vf_n_acq_excl, vf_n_acq_shared, vf_n_rel, vf_n_block, vf_n_timed, vf_n_try, vf_n_cvwait, vf_n_yield, vf_n_mutex_ops, vf_n_notify, vf_cs_entry_v, vf_exc, vf_assign_threw, vf_user_threw'

COUNTERS = ['vf_n_acq_excl', 'vf_n_acq_shared', 'vf_n_rel', 'vf_n_block', 'vf_n_timed', 'vf_n_try', 'vf_n_cvwait', 'vf_n_yield', 'vf_n_mutex_ops', 'vf_n_notify']
CNT_OK = '(' + ' && '.join('%s >= 0 && %s <= VF_BIG' % (c, c) for c in COUNTERS) + ')'


def CNT_R(k):
    """precondition: ghost counters leave room for exact counting (k = head-room)"""
    return '(' + ' && '.join('%s >= 0 && %s <= VF_BIG - %d' % (c, c, k) for c in COUNTERS) + ' && vf_held >= 0 && vf_held <= 1000)'


def CNT_G(g):
    """postcondition: counters grew by at most g"""
    return '(' + ' && '.join('%s >= __CPROVER_old(%s) && %s <= __CPROVER_old(%s) + %d' % (c, c, c, c, g) for c in COUNTERS) + ' && vf_held >= 0 && vf_held <= 1001)'
