"""Unit `shared`: shared side of handles.hpp, shared_guarded, shared_guarded_opt, ordered_guarded
for all four mutex types — Scheme L with access modes (C01 exclusive side, C02, C08, C15, C20)."""
from _common import GHOST_ASSIGNS
from _lockspec import (GHOST, TAGMAP, handle_entries, try_handle_entries, wrapper_acq_entries, whole_object_ops,
                       GSET, GOSET, is_sh, not_sh, one_cs, R3, G3)
from guarded import merge

UNIT = dict(
    name='shared',
    driver='drivers/shared.cpp',
    assumptions=[
        'std::mutex/timed_mutex/shared_mutex/shared_timed_mutex, unique_lock, shared_lock, lock_guard behave as the models in models/models.c',
        'meta-theorem L with modes (DESIGN.md 4): exclusive holders exclude everyone, shared holders exclude exclusive ones; two shared holders are compatible (that compatibility is a property of the std mutex, trusted)',
        'instantiations verified: T = abstract payload, M in {mutex, timed_mutex, shared_mutex, shared_timed_mutex}, functors = abstract (void and value-returning)',
        'client obligation (non-recursive mutex): a thread does not call a blocking acquisition on a wrapper it already holds a handle of',
    ],
    ghost=GHOST)

FN = {}
merge(FN, handle_entries('lock_handle', 'C01 C08'))
merge(FN, try_handle_entries('try_lock_handle', 'C01 C08'))
# shared handles: the lock object is shared_lock<M> for shared-capable M, unique_lock<M> for plain M
merge(FN, handle_entries('shared_lock_handle', 'C02 C08', sh=True, where=is_sh))
merge(FN, handle_entries('shared_lock_handle', 'C02 C08', sh=False, where=not_sh))
merge(FN, try_handle_entries('try_lock_shared_handle', 'C02 C08', sh=True, where=is_sh))
merge(FN, try_handle_entries('try_lock_shared_handle', 'C02 C08', sh=False, where=not_sh))

is_const = lambda fm: fm['cname'].endswith('_const')
not_const = lambda fm: not fm['cname'].endswith('_const')
XACQ = [('lock', 'block', not_const), ('try_lock', 'try', None), ('try_lock_for', 'timed', None), ('try_lock_until', 'timed', None)]
SACQ = [('lock', 'block', is_const), ('lock_shared', 'block', None), ('try_lock_shared', 'try', None),
        ('try_lock_shared_for', 'timed', None), ('try_lock_shared_until', 'timed', None)]
for cls, inv, setup, opt in (('shared_guarded', 'G(self)', GSET, False), ('shared_guarded_opt', 'GO(self)', GOSET, True)):
    merge(FN, wrapper_acq_entries(cls, XACQ, 'C01 C08', inv, setup, opt=opt))
    merge(FN, wrapper_acq_entries(cls, SACQ, 'C02 C08', inv, setup, sh=True, where=is_sh, opt=opt))
    merge(FN, wrapper_acq_entries(cls, SACQ, 'C02 C08', inv, setup, sh=False, where=not_sh, opt=opt))

# ordered_guarded
OSACQ = [('lock_shared', 'block', None), ('try_lock_shared', 'try', None), ('try_lock_shared_for', 'timed', None), ('try_lock_shared_until', 'timed', None)]
merge(FN, wrapper_acq_entries('ordered_guarded', OSACQ, 'C02 C08', 'G(self)', GSET, sh=True, where=is_sh))
merge(FN, wrapper_acq_entries('ordered_guarded', OSACQ, 'C02 C08', 'G(self)', GSET, sh=False, where=not_sh))
merge(FN, whole_object_ops('ordered_guarded', 'G(self)', GSET, load_sh=[(True, is_sh), (False, not_sh)]))
FN[r'ordered_guarded::modify'] = dict(
    props='C01 C02 C20', setup=GSET,
    requires=['G(self) && FREE(self->m_mutex) && vf_held == 0 && !vf_exc && !vf_user_threw && ' + R3],
    ensures=[('C20', 'vf_user_threw == (vf_exc != 0)', 'an exception thrown by the functor propagates to the caller; nothing else throws'),
             ('C01 C02 C20', one_cs(False), 'the functor runs inside exactly one exclusive critical section (model assertion L1 at the call); the lock is released on normal and on exceptional exit'),
             ('C20', 'G(self)', 'wrapper invariant on every exit'),
             ('', G3, 'counters')],
    assigns='self->m_mutex, self->m_obj.v, self->m_obj.torn, ' + GHOST_ASSIGNS)
for _sh, _w in ((True, is_sh), (False, not_sh)):
    FN.setdefault(r'ordered_guarded::read', []).append(dict(
        props='C02 C20', setup=GSET, where=_w,
        requires=['G(self) && FREE(self->m_mutex) && vf_held == 0 && !vf_exc && !vf_user_threw && ' + R3],
        ensures=[('C20', 'vf_user_threw == (vf_exc != 0)', 'an exception thrown by the functor propagates to the caller; nothing else throws'),
                 ('C02 C20', one_cs(_sh), 'the functor runs inside exactly one critical section (shared mode for a shared-capable mutex); released on normal and on exceptional exit'),
                 ('C02 C20', 'G(self) && self->m_obj.v == vf_cs_entry_v', 'read does not modify the object'),
                 ('', G3, 'counters')],
        assigns='self->m_mutex, self->m_obj.v, ' + GHOST_ASSIGNS))
