"""Unit `soh`: SearchableObjectHolder.hpp for <abstract object, int> — C17 (atomic, memory-safe
name-to-object map), C20 (a throwing predicate never leaves the holder locked)."""
from _common import GHOST_BOUNDS, GHOST_ASSIGNS, CNT_R, CNT_G, CNT_OK

S = 'SearchableObjectHolder_vf_obj_int'
STR = 'std_string'
SPO = 'std_shared_ptr_vf_obj'
PSO = 'std_pair_std_string_std_shared_ptr_vf_obj'
OMAP = 'std_map_std_string_std_shared_ptr_vf_obj'
OIT = 'std_Rb_tree_iterator_std_pair_std_string_std_shared_ptr_vf_obj'
PIB = 'std_pair_std_Rb_tree_iterator_std_pair_std_string_std_shared_ptr_vf_obj_bool'
VI = 'std_vector_int'
PSV = 'std_pair_std_string_std_vector_int'
TMAP = 'std_map_std_string_std_vector_int'
TIT = 'std_Rb_tree_iterator_std_pair_std_string_std_vector_int'
TCIT = 'std_Rb_tree_const_iterator_std_pair_std_string_std_vector_int'
PTB = 'std_pair_std_Rb_tree_iterator_std_pair_std_string_std_vector_int_bool'
VIT = 'gnu_cxx_normal_iterator_int_std_vector_int'
VSO = 'std_vector_std_shared_ptr_vf_obj'
FUN = 'std_function_bool_std_shared_ptr_vf_obj'
IL = 'std_initializer_list_int'
FIND1 = S + '__findObject__std_function_bool_std_shared_ptr_vf_obj__lambda0'
FIND2 = S + '__findObject__std_function_bool_std_shared_ptr_vf_obj_int__lambda0'
D = dict(S=S, STR=STR, SPO=SPO, PSO=PSO, OMAP=OMAP, OIT=OIT, PIB=PIB, VI=VI, PSV=PSV, TMAP=TMAP, TIT=TIT, TCIT=TCIT, PTB=PTB, VIT=VIT, VSO=VSO, FUN=FUN, IL=IL,
         FIND1=FIND1, FIND2=FIND2)

NAMES = r'''
/* ---- trusted abstract models of the std containers used by SearchableObjectHolder ----
   keys are abstract (identity = id); each map tracks exactly one FOCUS key (vf_fk, chosen
   nondeterministically by the harness, so what is proved for it holds for every key); all other
   entries are represented by a scratch element with arbitrary content.  Iterators are positions
   plus the map generation they were created in; erase() invalidates iterators to the erased element. */
struct %(STR)s { int id; };
struct vf_sobj { int refs; int life; };
struct %(SPO)s { struct vf_sobj *p; };
struct %(PSO)s { struct %(STR)s first; struct %(SPO)s second; };
struct %(OMAP)s { unsigned long size; _Bool has_f; unsigned long fpos; struct %(PSO)s felem; struct %(PSO)s other;
                  int gen; _Bool erased_any; unsigned long le_idx; int le_gen; };
struct %(OIT)s { struct %(OMAP)s *m; unsigned long idx; int gen; };
struct %(PIB)s { struct %(OIT)s first; _Bool second; };
struct %(VI)s { unsigned long size; _Bool has_t; unsigned long tpos; int scratch; };
struct %(PSV)s { struct %(STR)s first; struct %(VI)s second; };
struct %(TMAP)s { unsigned long size; _Bool has_f; unsigned long fpos; struct %(PSV)s felem; struct %(PSV)s other;
                  int gen; _Bool erased_any; unsigned long le_idx; int le_gen; };
struct %(TIT)s { struct %(TMAP)s *m; unsigned long idx; int gen; };
#define %(TCIT)s %(TIT)s
struct %(PTB)s { struct %(TIT)s first; _Bool second; };
struct %(VIT)s { struct %(VI)s *v; unsigned long idx; };
struct %(VSO)s { unsigned long size; unsigned long fidx; struct %(SPO)s f; struct %(SPO)s other; };
struct %(FUN)s { char vf_empty; };
/* vector<pair<string, shared_ptr<X>>>: a snapshot copied out of objectMap (size + the copy of the focus entry) */
struct std_vector_%(PSO)s { unsigned long size; _Bool has_f; unsigned long fpos; struct %(PSO)s felem; struct %(PSO)s other; };
struct gnu_cxx_normal_iterator_%(PSO)s_std_vector_%(PSO)s { struct std_vector_%(PSO)s *v; unsigned long idx; };
#define std_vector_%(PSO)s__ctor(v) ((v)->size = 0, (v)->has_f = 0, (v)->fpos = 0, (v)->felem.second.p = 0, (v)->other.second.p = 0)
#define std_vector_%(PSO)s__dtor vf_vps_dtor
#define std_vector_%(PSO)s__assign__2 vf_vps_assign
#define std_vector_%(PSO)s__begin__0(it, vv) ((it)->v = (vv), (it)->idx = 0)
#define std_vector_%(PSO)s__end__0(it, vv) ((it)->v = (vv), (it)->idx = (vv)->size)
#define gnu_cxx_normal_iterator_%(PSO)s_std_vector_%(PSO)s__op_deref__0 vf_vpsit_deref
#define gnu_cxx_normal_iterator_%(PSO)s_std_vector_%(PSO)s__op_arrow__0 vf_vpsit_deref
#define gnu_cxx_normal_iterator_%(PSO)s_std_vector_%(PSO)s__op_inc__0(it) ((it)->idx = (it)->idx + 1, (it))
#define ext_op_ne__normal_iterator_%(PSO)s_std_vector_%(PSO)s_ref_normal_iterator_%(PSO)s_std_vector_%(PSO)s_ref(a, b) ((a)->idx != (b)->idx)
#define ext_op_eq__normal_iterator_%(PSO)s_std_vector_%(PSO)s_ref_normal_iterator_%(PSO)s_std_vector_%(PSO)s_ref(a, b) ((a)->idx == (b)->idx)
struct %(IL)s { int *p; unsigned long n; };
#define %(OMAP)s__ctor vf_om_ctor
#define %(OMAP)s__dtor vf_om_dtor
#define %(OMAP)s__begin__0 vf_om_begin
#define %(OMAP)s__end__0 vf_om_end
#define %(OMAP)s__find__1 vf_om_find
#define %(OMAP)s__emplace__2 vf_om_emplace
#define %(OMAP)s__erase__1 vf_om_erase
#define %(OMAP)s__empty__0(m) ((m)->size == 0)
#define %(OIT)s__op_arrow__0 vf_oit_deref
#define %(OIT)s__op_deref__0 vf_oit_deref
#define %(OIT)s__op_inc__0 vf_oit_inc
#define ext_op_ne__std_Rb_tree_iterator_std_pair_std_string_std_shared_ptr_vf_obj_Self_ref_std_Rb_tree_iterator_std_pair_std_string_std_shared_ptr_vf_obj_Self_ref(a, b) ((a)->idx != (b)->idx)
#define ext_op_eq__std_Rb_tree_iterator_std_pair_std_string_std_shared_ptr_vf_obj_Self_ref_std_Rb_tree_iterator_std_pair_std_string_std_shared_ptr_vf_obj_Self_ref(a, b) ((a)->idx == (b)->idx)
#define %(TMAP)s__ctor vf_tm_ctor
#define %(TMAP)s__dtor(m) ((void)0)
#define %(TMAP)s__end__0 vf_tm_end
#define %(TMAP)s__find__1 vf_tm_find
#define %(TMAP)s__emplace__2 vf_tm_emplace
#define %(TMAP)s__erase__1 vf_tm_erase
#define %(TMAP)s__op_index__1 vf_tm_index
#define %(TIT)s__op_arrow__0 vf_tit_deref
#define %(TCIT)s__op_arrow__0 vf_tit_deref
#define ext_op_ne__std_Rb_tree_iterator_std_pair_std_string_std_vector_int_Self_ref_std_Rb_tree_iterator_std_pair_std_string_std_vector_int_Self_ref(a, b) ((a)->idx != (b)->idx)
#define ext_op_eq__std_Rb_tree_iterator_std_pair_std_string_std_vector_int_Self_ref_std_Rb_tree_iterator_std_pair_std_string_std_vector_int_Self_ref(a, b) ((a)->idx == (b)->idx)
#define ext_op_ne__std_Rb_tree_const_iterator_std_pair_std_string_std_vector_int_Self_ref_std_Rb_tree_const_iterator_std_pair_std_string_std_vector_int_Self_ref(a, b) ((a)->idx != (b)->idx)
#define ext_op_eq__std_Rb_tree_const_iterator_std_pair_std_string_std_vector_int_Self_ref_std_Rb_tree_const_iterator_std_pair_std_string_std_vector_int_Self_ref(a, b) ((a)->idx == (b)->idx)
#define %(VI)s__ctor__initializer_list_value_type_allocator_type_ref vf_vi_from_il
#define %(VI)s__dtor(v) ((void)0)
#define %(VI)s__push_back__1 vf_vi_push_back
#define %(VI)s__begin__0(it, vv) ((it)->v = (vv), (it)->idx = 0)
#define %(VI)s__end__0(it, vv) ((it)->v = (vv), (it)->idx = (vv)->size)
#define %(VIT)s__op_deref__0 vf_vit_deref
#define %(VIT)s__op_inc__0(it) ((it)->idx = (it)->idx + 1, (it))
#define ext_op_ne__normal_iterator_int_std_vector_int_ref_normal_iterator_int_std_vector_int_ref(a, b) ((a)->idx != (b)->idx)
#define ext_op_eq__normal_iterator_int_std_vector_int_ref_normal_iterator_int_std_vector_int_ref(a, b) ((a)->idx == (b)->idx)
#define %(VSO)s__ctor(v) ((v)->size = 0, (v)->f.p = 0, (v)->other.p = 0)
#define %(VSO)s__push_back__1 vf_vso_push_back
#define %(VSO)s__dtor vf_vso_dtor
#define %(SPO)s__ctor_copy vf_spo_copy
#define %(SPO)s__ctor_move(s, o) ((s)->p = (o)->p, (o)->p = 0)
#define %(SPO)s__ctor__nullptr_t(s, n) ((s)->p = 0)
#define %(SPO)s__dtor vf_spo_dtor
#define %(FUN)s__op_call__1 vf_fun_call
#define %(FUN)s__dtor(f) ((void)0)
#define vf_msec__ctor__int_ref(d, x) ((d)->ticks = *(x))
#define std_this_thread_sleep_for(d) std_this_thread_yield()
#define ext_find_if__%(OIT)s_%(OIT)s_%(FIND1)s vf_find_if_1
#define ext_find_if__%(OIT)s_%(OIT)s_%(FIND2)s vf_find_if_2
''' % D

GHOST = GHOST_BOUNDS + r'''
int vf_fk;                         /* focus key id */
int vf_ft;                         /* focus type value */
struct vf_sobj vf_oobj;            /* the object behind every non-focus entry (not tracked individually) */
int g_user_calls;                  /* invocations of the user predicate */
int g_tm_emplaces;                 /* typeMap.emplace() calls of the verified call */
#define SPO_OK(s) ((s).p == 0 || ((s).p->life == VF_LIVE && (s).p->refs >= 1 && (s).p->refs < 1000))
#define OM_OK(m) ((m).size < 10000 && (!(m).has_f || ((m).fpos < (m).size && (m).felem.first.id == vf_fk && SPO_OK((m).felem.second))) && (m).gen >= 0 && (m).gen < 1000)
#define TM_OK(m) ((m).size < 10000 && (!(m).has_f || ((m).fpos < (m).size && (m).felem.first.id == vf_fk && (m).felem.second.size < 10000 && \
                  (!(m).felem.second.has_t || (m).felem.second.tpos < (m).felem.second.size))) && (m).gen >= 0 && (m).gen < 1000)
#define SOH_OK_L(s) ((s)->objectMap.size < 10000 && (!(s)->objectMap.has_f || (s)->objectMap.fpos < (s)->objectMap.size) && (s)->typeMap.size < 10000 && \
                     (!(s)->typeMap.has_f || (s)->typeMap.fpos < (s)->typeMap.size) && (s)->mapLock.guards == 0)
#define SOH_OK(s) (OM_OK((s)->objectMap) && TM_OK((s)->typeMap) && (s)->mapLock.guards == 0 && vf_oobj.life == VF_LIVE && vf_oobj.refs >= 1 && vf_oobj.refs < VF_BIG)
#define LOCKED(s) ((s)->mapLock.excl_me)

/* every container operation must happen under mapLock (Scheme L for the two maps) */
struct %(S)s *vf_SOH;
#define NEED_LOCK(what) __CPROVER_assert(vf_SOH == 0 || vf_SOH->mapLock.excl_me, "[L1] " what " without holding mapLock")

struct vf_sobj vf_fobj;            /* the object stored under the focus key, if any */
_Bool g_cs_has_f, g_cs_thas_f; struct vf_sobj *g_cs_obj; unsigned long g_cs_size; int g_cs_refs;   /* snapshot at critical-section entry */
void vf_soh_acquired(struct vf_mutex *m)
{
  if (vf_SOH == 0 || m != &vf_SOH->mapLock) return;
  /* L4: other threads may have changed both maps since we last held mapLock: anything well-formed */
  struct %(OMAP)s *om = &vf_SOH->objectMap; struct %(TMAP)s *tm = &vf_SOH->typeMap;
  om->size = vf_nondet_ulong(); om->has_f = vf_nondet_bool(); om->fpos = vf_nondet_ulong(); om->felem.first.id = vf_fk;
  om->felem.second.p = vf_nondet_bool() ? &vf_fobj : (struct vf_sobj *)0; om->erased_any = 0; om->gen = 0;
  tm->size = vf_nondet_ulong(); tm->has_f = vf_nondet_bool(); tm->fpos = vf_nondet_ulong(); tm->felem.first.id = vf_fk;
  tm->felem.second.size = vf_nondet_ulong(); tm->felem.second.has_t = vf_nondet_bool(); tm->felem.second.tpos = vf_nondet_ulong(); tm->erased_any = 0; tm->gen = 0;
  vf_fobj.refs = vf_nondet_int(); vf_oobj.refs = vf_nondet_int();
  __CPROVER_assume(vf_fobj.life == VF_LIVE && vf_fobj.refs >= 1 && vf_fobj.refs < 100 && vf_oobj.refs >= 1 && vf_oobj.refs < 100);
  __CPROVER_assume(SOH_OK(vf_SOH) && om->size < 5000 && tm->size < 5000 && tm->felem.second.size < 5000);
  g_cs_has_f = om->has_f; g_cs_thas_f = tm->has_f; g_cs_obj = om->felem.second.p; g_cs_size = om->size; g_cs_refs = vf_fobj.refs;
}
#define VF_HOOK_ACQUIRED(m, s) vf_soh_acquired(m)
void vf_spo_copy(struct %(SPO)s *s, struct %(SPO)s *o) { s->p = o->p; if (s->p) s->p->refs = s->p->refs + 1; }
void vf_spo_release(struct vf_sobj *l)
{
  if (l) {
    __CPROVER_assert(l->life == VF_LIVE && l->refs >= 1, "[C17] shared_ptr releases an object that is not alive");
    l->refs = l->refs - 1;
    if (l->refs == 0) l->life = VF_DEAD;
  }
}
void vf_spo_dtor(struct %(SPO)s *s) { vf_spo_release(s->p); s->p = 0; }

/* ---- map<string, shared_ptr<X>> ---- */
void vf_om_ctor(struct %(OMAP)s *m) { m->size = 0; m->has_f = 0; m->gen = 0; m->erased_any = 0; m->felem.second.p = 0; }
void vf_om_dtor(struct %(OMAP)s *m) { if (m->has_f) vf_spo_dtor(&m->felem.second); m->has_f = 0; m->size = 0; }
void vf_om_begin(struct %(OIT)s *it, struct %(OMAP)s *m) { NEED_LOCK("objectMap.begin()"); it->m = m; it->idx = 0; it->gen = m->gen; }
void vf_om_end(struct %(OIT)s *it, struct %(OMAP)s *m) { it->m = m; it->idx = m->size; it->gen = m->gen; }
_Bool vf_oit_valid(struct %(OIT)s *it) { return !(it->m->erased_any && it->gen <= it->m->le_gen && it->idx == it->m->le_idx); }
struct %(PSO)s *vf_om_elem(struct %(OMAP)s *m, unsigned long i)
{
  if (m->has_f && i == m->fpos) return &m->felem;
  m->other.first.id = vf_nondet_int();
  __CPROVER_assume(m->other.first.id != vf_fk);
  m->other.second.p = vf_nondet_bool() ? &vf_oobj : (struct vf_sobj *)0;
  return &m->other;
}
struct %(PSO)s *vf_oit_deref(struct %(OIT)s *it)
{
  NEED_LOCK("access to an objectMap element");
  __CPROVER_assert(vf_oit_valid(it), "[C17] an iterator to an erased map element is dereferenced (use after free of the map node)");
  __CPROVER_assert(it->idx < it->m->size, "[C17] the end iterator of objectMap is dereferenced");
  return vf_om_elem(it->m, it->idx);
}
struct %(OIT)s *vf_oit_inc(struct %(OIT)s *it)
{
  __CPROVER_assert(vf_oit_valid(it), "[C17] an iterator to an erased map element is incremented");
  __CPROVER_assert(it->idx < it->m->size, "[C17] the end iterator of objectMap is incremented");
  it->idx = it->idx + 1;
  return it;
}
void vf_om_find(struct %(OIT)s *it, struct %(OMAP)s *m, struct %(STR)s *key)
{
  NEED_LOCK("objectMap.find()");
  it->m = m; it->gen = m->gen;
  if (key->id == vf_fk) { it->idx = m->has_f ? m->fpos : m->size; return; }
  it->idx = vf_nondet_ulong();
  __CPROVER_assume(it->idx <= m->size && !(m->has_f && it->idx == m->fpos));
}
void vf_om_emplace(struct %(PIB)s *ret, struct %(OMAP)s *m, struct %(STR)s *key, struct %(SPO)s *val)
{
  NEED_LOCK("objectMap.emplace()");
  ret->first.m = m;
  if (key->id == vf_fk) {
    if (m->has_f) {                       /* duplicate: the node built from the argument is discarded again */
      vf_spo_dtor(val);
      ret->second = 0; ret->first.idx = m->fpos;
    } else {
      unsigned long pos = vf_nondet_ulong();
      __CPROVER_assume(pos <= m->size);
      m->has_f = 1; m->fpos = pos; m->felem.first = *key; m->felem.second.p = val->p; val->p = 0;
      m->size = m->size + 1;
      ret->second = 1; ret->first.idx = pos;
    }
  } else {
    if (m->size > 0 && vf_nondet_bool()) {   /* some other key: present ... */
      vf_spo_dtor(val);
      ret->second = 0;
      ret->first.idx = vf_nondet_ulong();
      __CPROVER_assume(ret->first.idx < m->size && !(m->has_f && ret->first.idx == m->fpos));
    } else {                                  /* ... or new: the container takes the reference over */
      val->p = 0;
      /* positions are an abstract enumeration order: a new entry is enumerated last, so the positions of
         existing entries (and std::map iterators, which stay valid across insertions) do not move */
      ret->first.idx = m->size;
      m->size = m->size + 1;
      ret->second = 1;
    }
  }
  ret->first.gen = m->gen;
}
void vf_om_erase(struct %(OIT)s *ret, struct %(OMAP)s *m, struct %(OIT)s *pos)
{
  NEED_LOCK("objectMap.erase()");
  __CPROVER_assert(vf_oit_valid(pos) && pos->idx < m->size, "[C17] objectMap.erase() of an invalid or end iterator");
  if (m->has_f && pos->idx == m->fpos) { vf_spo_dtor(&m->felem.second); m->has_f = 0; }
  else if (m->has_f && pos->idx < m->fpos) m->fpos = m->fpos - 1;
  m->size = m->size - 1;
  m->erased_any = 1; m->le_idx = pos->idx; m->le_gen = m->gen;
  if (m->gen < 999) m->gen = m->gen + 1;
  ret->m = m; ret->idx = pos->idx; ret->gen = m->gen;
}
/* ---- vector<int> ---- */
void vf_vi_from_il(struct %(VI)s *v, struct %(IL)s *il, void *alloc)
{
  v->size = il->n; v->has_t = 0; v->tpos = 0;
  if (il->n == 1 && il->p[0] == vf_ft) { v->has_t = 1; v->tpos = 0; }
}
void vf_vi_push_back(struct %(VI)s *v, int *x)
{
  if (*x == vf_ft && !v->has_t) { v->has_t = 1; v->tpos = v->size; }
  __CPROVER_assume(v->size < 9999);
  v->size = v->size + 1;
}
int *vf_vit_deref(struct %(VIT)s *it)
{
  __CPROVER_assert(it->idx < it->v->size, "[C17] vector<int> iterator dereferenced past the end");
  if (it->v->has_t && it->idx == it->v->tpos) it->v->scratch = vf_ft;
  else { it->v->scratch = vf_nondet_int(); __CPROVER_assume(it->v->scratch != vf_ft); }
  return &it->v->scratch;
}
/* ---- map<string, vector<int>> ---- */
void vf_tm_ctor(struct %(TMAP)s *m) { m->size = 0; m->has_f = 0; m->gen = 0; m->erased_any = 0; }
void vf_tm_end(struct %(TIT)s *it, struct %(TMAP)s *m) { it->m = m; it->idx = m->size; it->gen = m->gen; }
_Bool vf_tit_valid(struct %(TIT)s *it) { return !(it->m->erased_any && it->gen <= it->m->le_gen && it->idx == it->m->le_idx); }
struct %(PSV)s *vf_tit_deref(struct %(TIT)s *it)
{
  NEED_LOCK("access to a typeMap element");
  __CPROVER_assert(vf_tit_valid(it), "[C17] an iterator to an erased typeMap element is dereferenced");
  __CPROVER_assert(it->idx < it->m->size, "[C17] the end iterator of typeMap is dereferenced");
  if (it->m->has_f && it->idx == it->m->fpos) return &it->m->felem;
  it->m->other.first.id = vf_nondet_int();
  __CPROVER_assume(it->m->other.first.id != vf_fk);
  it->m->other.second.size = vf_nondet_ulong();
  __CPROVER_assume(it->m->other.second.size < 10000);
  it->m->other.second.has_t = vf_nondet_bool();
  it->m->other.second.tpos = vf_nondet_ulong();
  __CPROVER_assume(!it->m->other.second.has_t || it->m->other.second.tpos < it->m->other.second.size);
  return &it->m->other;
}
void vf_tm_find(struct %(TIT)s *it, struct %(TMAP)s *m, struct %(STR)s *key)
{
  NEED_LOCK("typeMap.find()");
  it->m = m; it->gen = m->gen;
  if (key->id == vf_fk) { it->idx = m->has_f ? m->fpos : m->size; return; }
  it->idx = vf_nondet_ulong();
  __CPROVER_assume(it->idx <= m->size && !(m->has_f && it->idx == m->fpos));
}
void vf_tm_emplace(struct %(PTB)s *ret, struct %(TMAP)s *m, struct %(STR)s *key, struct %(VI)s *val)
{
  NEED_LOCK("typeMap.emplace()");
  if (g_tm_emplaces < 100) g_tm_emplaces = g_tm_emplaces + 1;
  ret->first.m = m; ret->first.gen = m->gen;
  if (key->id == vf_fk) {
    if (m->has_f) { ret->second = 0; ret->first.idx = m->fpos; return; }
    unsigned long pos = vf_nondet_ulong();
    __CPROVER_assume(pos <= m->size);
    m->has_f = 1; m->fpos = pos; m->felem.first = *key; m->felem.second = *val; m->size = m->size + 1;
    ret->second = 1; ret->first.idx = pos;
    return;
  }
  ret->second = vf_nondet_bool();
  ret->first.idx = vf_nondet_ulong();
  __CPROVER_assume(ret->first.idx <= m->size);
  if (ret->second) { if (m->has_f && ret->first.idx <= m->fpos) m->fpos = m->fpos + 1; m->size = m->size + 1; }
}
void vf_tm_erase(struct %(TIT)s *ret, struct %(TMAP)s *m, struct %(TIT)s *pos)
{
  NEED_LOCK("typeMap.erase()");
  __CPROVER_assert(vf_tit_valid(pos) && pos->idx < m->size, "[C17] typeMap.erase() of an invalid or end iterator");
  if (m->has_f && pos->idx == m->fpos) m->has_f = 0;
  else if (m->has_f && pos->idx < m->fpos) m->fpos = m->fpos - 1;
  m->size = m->size - 1;
  m->erased_any = 1; m->le_idx = pos->idx; m->le_gen = m->gen;
  if (m->gen < 999) m->gen = m->gen + 1;
  ret->m = m; ret->idx = pos->idx; ret->gen = m->gen;
}
struct %(VI)s *vf_tm_index(struct %(TMAP)s *m, struct %(STR)s *key)
{
  NEED_LOCK("typeMap[]");
  if (key->id == vf_fk) {
    if (!m->has_f) {
      unsigned long pos = vf_nondet_ulong();
      __CPROVER_assume(pos <= m->size);
      m->has_f = 1; m->fpos = pos; m->felem.first = *key; m->felem.second.size = 0; m->felem.second.has_t = 0; m->felem.second.tpos = 0;
      m->size = m->size + 1;
    }
    return &m->felem.second;
  }
  m->other.second.size = vf_nondet_ulong();
  __CPROVER_assume(m->other.second.size < 9000);
  m->other.second.has_t = 0;
  if (vf_nondet_bool()) { if (m->has_f && vf_nondet_bool()) m->fpos = m->fpos + 1; m->size = m->size + 1; }
  return &m->other.second;
}
/* ---- vector<shared_ptr<X>> (result of getObjects): tracks the copy made of the focus entry ---- */
void vf_vso_push_back(struct %(VSO)s *v, struct %(SPO)s *x)
{
  if (vf_SOH != 0 && vf_SOH->objectMap.has_f && x == &vf_SOH->objectMap.felem.second) { vf_spo_copy(&v->f, x); v->fidx = v->size; }
  else { struct %(SPO)s tmp; vf_spo_copy(&tmp, x); v->other = tmp; }
  v->size = v->size + 1;
}
void vf_vso_dtor(struct %(VSO)s *v) { vf_spo_dtor(&v->f); }
/* ---- vector<pair<string, shared_ptr<X>>>: assign(first, last) copies a range of objectMap ---- */
void vf_vps_dtor(struct std_vector_%(PSO)s *v) { if (v->has_f) vf_spo_dtor(&v->felem.second); v->has_f = 0; v->size = 0; }
void vf_vps_assign(struct std_vector_%(PSO)s *v, struct %(OIT)s *a, struct %(OIT)s *b)
{
  NEED_LOCK("copying entries out of objectMap");
  __CPROVER_assert(a->m == b->m && a->idx <= b->idx && b->idx <= a->m->size && vf_oit_valid(a), "[C17] assign() from an invalid objectMap range");
  vf_vps_dtor(v);
  if (vf_nondet_bool()) { vf_exc = 1; return; }
  v->size = b->idx - a->idx;
  if (a->m->has_f && a->m->fpos >= a->idx && a->m->fpos < b->idx) {
    v->has_f = 1; v->fpos = a->m->fpos - a->idx; v->felem.first = a->m->felem.first; vf_spo_copy(&v->felem.second, &a->m->felem.second);
  }
}
struct %(PSO)s *vf_vpsit_deref(struct gnu_cxx_normal_iterator_%(PSO)s_std_vector_%(PSO)s *it)
{
  __CPROVER_assert(it->idx < it->v->size, "[C17] the end iterator of a snapshot vector is dereferenced");
  if (it->v->has_f && it->idx == it->v->fpos) return &it->v->felem;
  it->v->other.first.id = vf_nondet_int();
  __CPROVER_assume(it->v->other.first.id != vf_fk);
  it->v->other.second.p = vf_nondet_bool() ? &vf_oobj : (struct vf_sobj *)0;
  return &it->v->other;
}
/* ---- std::function<bool(const shared_ptr<X>&)>: user code, may throw at any call ---- */
_Bool vf_fun_call(struct %(FUN)s *f, struct %(SPO)s *arg)
{
  NEED_LOCK("user predicate applied to a stored object");
  if (g_user_calls < VF_BIG) g_user_calls = g_user_calls + 1;
  if (vf_nondet_bool()) { vf_exc = 1; vf_user_threw = 1; return 0; }
  return vf_nondet_bool();
}
''' % D

# std::find_if over objectMap with the two lowered closures: first position whose predicate holds
FIND_IF = r'''
#ifdef VF_HAVE_%(LAM)s__op_call_T_std_pair_std_string_std_shared_ptr_vf_obj
_Bool %(LAM)s__op_call_T_std_pair_std_string_std_shared_ptr_vf_obj(struct %(LAM)s *vf_c, struct %(PSO)s *val);
void %(NAME)s(struct %(OIT)s *ret, struct %(OIT)s *first, struct %(OIT)s *last, struct %(LAM)s *pred)
{
  *ret = *first;
  while (1)
  __CPROVER_assigns(ret->idx, ret->m->other, g_user_calls, vf_exc, vf_user_threw%(EXTRA)s)
  __CPROVER_loop_invariant(ret->m == first->m && ret->idx <= last->idx && ret->gen == first->gen && !vf_exc && !vf_user_threw && g_user_calls >= 0 && g_user_calls <= VF_BIG)
  __CPROVER_decreases(last->idx - ret->idx)
  {
    if (ret->idx == last->idx) break;
    _Bool c = %(LAM)s__op_call_T_std_pair_std_string_std_shared_ptr_vf_obj(pred, vf_oit_deref(ret));
    if (vf_exc) return;
    if (c) break;
    ret->idx = ret->idx + 1;
  }
}
#endif
'''
GHOST += FIND_IF % dict(D, NAME='vf_find_if_1', LAM=FIND1, EXTRA='')
GHOST += FIND_IF % dict(D, NAME='vf_find_if_2', LAM=FIND2, EXTRA=', vf_SOH->typeMap.other, vf_SOH->typeMap.felem.second.scratch')

UNIT = dict(
    name='soh',
    driver='drivers/soh.cpp',
    names=NAMES, ghost=GHOST,
    assumptions=[
        'std::map / std::vector / std::string / std::shared_ptr / std::function are abstract models: keys are identities, each map tracks one focus key chosen nondeterministically (a fact proved for the focus key holds for every key), other entries are arbitrary; iterators are positions with a validity generation, erase() invalidates iterators to the erased element; vector<pair<string, shared_ptr<X>>> (not used by the current source; present so that a rewrite that copies the map out is decided instead of undecided) is a size plus the copy of the focus entry, assign(first, last) from objectMap needs mapLock and may throw',
        'emplace on an existing key destroys the node it built from its argument (libstdc++ behaviour: the passed shared_ptr is released)',
        'the user predicate (std::function) may throw at any invocation and returns an arbitrary result',
        'ENABLE_TRIPWIRE is not defined (default build)',
        'the type vectors are abstract (length + position of one focus tag)',
    ])

TAGMAP = {'L1': 'C17', 'L2': 'C17 C20', 'L5': 'C17', 'noexcept': 'C17 C20'}
R3, G3 = CNT_R(1000), CNT_G(30)
SG = 'g_user_calls, g_tm_emplaces, vf_oobj, vf_fobj, g_cs_has_f, g_cs_thas_f, g_cs_obj, g_cs_size, g_cs_refs, ' + GHOST_ASSIGNS
ONE_CS = 'vf_n_acq_excl == __CPROVER_old(vf_n_acq_excl) + 1 && vf_n_rel == __CPROVER_old(vf_n_rel) + 1 && vf_held == 0 && !self->mapLock.excl_me'
# harness: a holder with arbitrary well-formed maps; the focus entry (if present) holds object fo
SETUP = ('vf_SOH = self; vf_fobj.life = VF_LIVE; __CPROVER_assume(vf_fobj.refs >= 1 && vf_fobj.refs < 100); vf_oobj.life = VF_LIVE; __CPROVER_assume(vf_oobj.refs >= 1 && vf_oobj.refs < 100); '
         'self->objectMap.felem.second.p = vf_nondet_bool() ? &vf_fobj : (struct vf_sobj *)0; self->mapLock.guards = 0;')
PRE = 'vf_SOH == self && SOH_OK(self) && !self->mapLock.excl_me && self->mapLock.shared_me == 0 && vf_held == 0 && !vf_exc && !vf_user_threw && g_user_calls == 0 && g_tm_emplaces == 0 && ' + R3
FOC = 'self->objectMap.has_f'
OBJ = 'self->objectMap.felem.second.p'


def entry(**kw):
    e = dict(props='C17 C20', setup=SETUP, requires=[PRE + kw.pop('pre', '')])
    e.update(kw)
    e['ensures'] = [('C17 C20', ONE_CS, 'the whole operation is one critical section of mapLock (atomic with respect to every other operation), released on normal and exceptional exit'),
                    ('C17 C20', 'SOH_OK(self)', 'both maps stay well-formed')] + e.get('ensures', []) + [('', CNT_OK, 'counters')]
    return e


ARG_SETUP = ' struct vf_sobj ao; ao.life = VF_LIVE; __CPROVER_assume(ao.refs >= 1 && ao.refs < 100); obj->p = vf_nondet_bool() ? &ao : (struct vf_sobj *)0;'
FN = {
    r'SearchableObjectHolder::addObject': [
        entry(where=lambda fm: 'type' not in ' '.join(fm['params']), setup=SETUP + ARG_SETUP,
              pre=' && SPO_OK(*obj) && (obj->p == 0 || obj->p != &vf_fobj)',
              ensures=[('C17', '(name->id == vf_fk && g_cs_has_f) ==> (!__CPROVER_return_value && ' + FOC + ' && ' + OBJ + ' == g_cs_obj)', 'a duplicate name is refused and the stored object is not replaced'),
                       ('C17', '(name->id == vf_fk && !g_cs_has_f) ==> (__CPROVER_return_value && ' + FOC + ' && ' + OBJ + ' == __CPROVER_old(obj->p))', 'a new name is stored with exactly the given object'),
                       ('C17', 'name->id != vf_fk ==> (' + FOC + ' == g_cs_has_f && ' + OBJ + ' == g_cs_obj)', 'other names are not affected'),
                       ('C17', '!vf_exc', 'no exception')],
              assigns=['*self, *obj, ' + SG, 'obj->p != 0: *(obj->p)']),
        entry(where=lambda fm: 'type' in ' '.join(fm['params']), setup=SETUP + ARG_SETUP,
              pre=' && SPO_OK(*obj) && (obj->p == 0 || obj->p != &vf_fobj)',
              ensures=[('C17', '(name->id == vf_fk && g_cs_has_f) ==> (!__CPROVER_return_value && ' + OBJ + ' == g_cs_obj && self->typeMap.has_f == g_cs_thas_f)',
                        'a duplicate name is refused: neither the object nor its tags are replaced'),
                       ('C17', '(name->id == vf_fk && !g_cs_has_f && !g_cs_thas_f) ==> (__CPROVER_return_value && ' + FOC + ' && ' + OBJ + ' == __CPROVER_old(obj->p) && self->typeMap.has_f && '
                               'self->typeMap.felem.second.size == 1 && (type == vf_ft) == self->typeMap.felem.second.has_t)', 'a new name is stored with the given object and exactly the given tag'),
                       ('C17', '!vf_exc', 'no exception')],
              assigns=['*self, *obj, ' + SG, 'obj->p != 0: *(obj->p)']),
    ],
    r'SearchableObjectHolder::empty': entry(
        ensures=[('C17', '__CPROVER_return_value == (self->objectMap.size == 0) && !vf_exc', 'reports whether any object is stored')],
        assigns='*self, ' + SG),
    r'SearchableObjectHolder::removeObject': [
        entry(where=lambda fm: 'operand' not in ' '.join(fm['params']),
              ensures=[('C17', '(name->id == vf_fk && g_cs_has_f) ==> (__CPROVER_return_value && !' + FOC + ' && !self->typeMap.has_f)', 'removal by name deletes the entry together with its tags'),
                       ('C17', '(name->id == vf_fk && !g_cs_has_f) ==> (!__CPROVER_return_value && self->objectMap.size == g_cs_size)', 'an unknown name removes nothing'),
                       ('C17', 'name->id != vf_fk ==> (' + FOC + ' == g_cs_has_f && ' + OBJ + ' == g_cs_obj)', 'other names are not affected'),
                       ('C17', '!vf_exc', 'no exception')],
              assigns=['*self, ' + SG, 'vf_fobj']),
        entry(where=lambda fm: 'operand' in ' '.join(fm['params']),
              ensures=[('C17', '(!vf_exc && __CPROVER_return_value) ==> (self->objectMap.size + 1 == g_cs_size)', 'removal by predicate deletes exactly one matching entry'),
                       ('C17', '(!vf_exc && __CPROVER_return_value && g_cs_has_f && !' + FOC + ') ==> !self->typeMap.has_f', 'together with its tags (checked for the focus entry)'),
                       ('C17', '(!vf_exc && !__CPROVER_return_value) ==> (self->objectMap.size == g_cs_size && ' + FOC + ' == g_cs_has_f)', 'no match removes nothing'),
                       ('C20', 'vf_user_threw == (vf_exc != 0)', 'an exception thrown by the predicate propagates; nothing else throws')],
              assigns=['*self, ' + SG, 'vf_fobj'],
              loops={0: dict(invariant=[('C17 C20', 'obj.m == &self->objectMap && obj.gen == self->objectMap.gen && obj.idx <= self->objectMap.size && !self->objectMap.erased_any && SOH_OK(self) && LOCKED(self) && vf_held == 1 && '
                                                    '!vf_exc && !vf_user_threw && g_user_calls >= 0 && g_user_calls <= VF_BIG && self->objectMap.size == __CPROVER_loop_entry(self->objectMap.size) && '
                                                    'self->objectMap.has_f == __CPROVER_loop_entry(self->objectMap.has_f) && self->typeMap.has_f == __CPROVER_loop_entry(self->typeMap.has_f)',
                                         'scan: the cursor is a valid position, nothing has been removed yet')],
                             assigns='obj.idx, self->objectMap.other, g_user_calls, vf_exc, vf_user_threw', decreases='self->objectMap.size - obj.idx')}),
    ],
    r'SearchableObjectHolder::findObject': [
        entry(where=lambda fm: 'name' in ' '.join(fm['params']),
              ensures=[('C17', '(name->id == vf_fk && ' + FOC + ') ==> (vf_ret->p == ' + OBJ + ' && (vf_ret->p == 0 || vf_ret->p->refs == g_cs_refs + 1))',
                        'find returns the stored object as a shared_ptr copy made under the lock (count +1: it stays alive even if removed concurrently)'),
                       ('C17', '(name->id == vf_fk && !' + FOC + ') ==> vf_ret->p == 0', 'an unknown name yields null'),
                       ('C17', FOC + ' == g_cs_has_f && self->objectMap.size == g_cs_size && !vf_exc', 'lookups do not modify the map')],
              assigns=['*vf_ret, *self, ' + SG]),
        entry(where=lambda fm: 'operand' in ' '.join(fm['params']) and 'type' not in ' '.join(fm['params']), inline_callees=True,
              ensures=[('C17', '!vf_exc ==> (vf_ret->p == 0 || vf_ret->p == &vf_oobj || vf_ret->p == ' + OBJ + ')', 'returns null or an object that is stored'),
                       ('C17', FOC + ' == g_cs_has_f && self->objectMap.size == g_cs_size', 'lookups do not modify the map'),
                       ('C20', 'vf_user_threw == (vf_exc != 0)', 'an exception thrown by the predicate propagates; nothing else throws')],
              assigns=['*vf_ret, *self, ' + SG]),
        entry(where=lambda fm: 'operand' in ' '.join(fm['params']) and 'type' in ' '.join(fm['params']), inline_callees=True,
              ensures=[('C17', '!vf_exc ==> (vf_ret->p == 0 || vf_ret->p == &vf_oobj || vf_ret->p == ' + OBJ + ')', 'returns null or an object that is stored'),
                       ('C17', '(!vf_exc && vf_ret->p != 0 && vf_ret->p == &vf_fobj && type == vf_ft) ==> (self->typeMap.has_f && self->typeMap.felem.second.has_t)',
                        'an object is returned for a type only if that type is among the tags registered for its name'),
                       ('C17', '(!vf_exc && vf_ret->p == &vf_fobj) ==> vf_fobj.refs == g_cs_refs + 1', 'as a shared_ptr copy made under the lock'),
                       ('C17', FOC + ' == g_cs_has_f && self->objectMap.size == g_cs_size && self->typeMap.has_f == g_cs_thas_f', 'lookups do not modify the maps'),
                       ('C20', 'vf_user_threw == (vf_exc != 0)', 'an exception thrown by the predicate propagates; nothing else throws')],
              assigns=['*vf_ret, *self, ' + SG]),
    ],
    r'SearchableObjectHolder::findObject::lambda0::op_call': [
        # the two predicate closures of findObject(pred) / findObject(pred, type): verified as part of
        # their callers (inlined through the find_if model); the typed one scans the tag vector
        dict(inline=True, optional=True, where=lambda fm: '_int__lambda0' not in fm['cname']),
        dict(inline=True, optional=True, where=lambda fm: '_int__lambda0' in fm['cname'],
             loops={0: dict(invariant=[('C17', 'vf_begin0.v == vf_range0 && vf_end0.v == vf_range0 && vf_end0.idx == vf_range0->size && vf_begin0.idx <= vf_range0->size && '
                                               '(vf_range0 == &vf_c->cap1->typeMap.felem.second || vf_range0 == &vf_c->cap1->typeMap.other.second) && '
                                               '(!vf_range0->has_t || vf_range0->tpos < vf_range0->size) && ((vf_range0->has_t && vf_c->cap2 == vf_ft) ==> vf_begin0.idx <= vf_range0->tpos) && '
                                               '!vf_exc && vf_SOH == vf_c->cap1 && vf_SOH->mapLock.excl_me',
                                        'scan of the tag vector inside the predicate: the focus tag has not been passed without returning true')],
                            assigns='vf_begin0.idx, vf_range0->scratch', decreases='vf_range0->size - vf_begin0.idx')}),
    ],
    r'SearchableObjectHolder::copyObject': entry(
        ensures=[('C17', '(!vf_exc && copyFromName->id == vf_fk && !' + FOC + ') ==> !__CPROVER_return_value', 'copying an unknown name fails'),
                 ('C17', '(copyFromName->id == vf_fk && copyToName->id == vf_fk) ==> (!__CPROVER_return_value || !g_cs_has_f)', 'an existing target name is refused'),
                 ('C17', '(copyToName->id != vf_fk) ==> (' + FOC + ' == g_cs_has_f && ' + OBJ + ' == g_cs_obj)', 'the source entry keeps its object (the copy aliases it)'),
                 ('C17', '(!vf_exc && __CPROVER_return_value && copyFromName->id == vf_fk && copyToName->id != vf_fk && g_cs_thas_f) ==> g_tm_emplaces == 1',
                  'when the source name carries type tags, the copy gets a tag entry too (exactly one typeMap.emplace)'),
                 ('C17', '!vf_exc', 'no exception')],
        assigns=['*self, ' + SG, 'vf_fobj']),
    r'SearchableObjectHolder::dtor': dict(
        props='C17', setup=SETUP,
        requires=[PRE],
        ensures=[('C17', '!vf_exc && vf_held == 0', 'the destructor waits a bounded number of rounds (never forever) and holds no lock on return')],
        assigns=['*self, ' + SG, 'vf_fobj'],
        loops={0: dict(invariant=[('C17', 'lock.owns && lock.m == &self->mapLock && LOCKED(self) && vf_held == 1 && !vf_exc && cntr >= 0 && cntr <= 7 && SOH_OK_L(self) && ' + CNT_OK, 'bounded retry loop')],
                       assigns='cntr, self->mapLock.excl_me, lock.owns, self->objectMap, self->typeMap, ' + SG, decreases='8 - cntr')}),
}

# ---- remaining operations: lock discipline, memory safety, and the focus-key functional facts
FN[r'SearchableObjectHolder::getObjects'] = entry(
    ensures=[('C17', '!vf_exc ==> (vf_ret->size == self->objectMap.size && (' + FOC + ' ==> (vf_ret->f.p == ' + OBJ + ' && vf_ret->fidx == self->objectMap.fpos)))',
              'getObjects returns exactly the objects currently stored (size; the focus entry appears at its position)'),
             ('C17', '(!vf_exc && ' + FOC + ' && ' + OBJ + ' != 0) ==> vf_fobj.refs == g_cs_refs + 1', 'as shared_ptr copies made under the lock'),
             ('C17', FOC + ' == g_cs_has_f && self->objectMap.size == g_cs_size && !vf_exc', 'the map is not modified')],
    assigns=['*vf_ret, *self, ' + SG],
    loops={0: dict(invariant=[('C17', 'vf_begin0.m == &self->objectMap && vf_end0.m == &self->objectMap && vf_begin0.gen == self->objectMap.gen && vf_end0.idx == self->objectMap.size && vf_begin0.idx <= self->objectMap.size && '
                                      '!self->objectMap.erased_any && SOH_OK_L(self) && LOCKED(self) && vf_held == 1 && !vf_exc && vf_ret->size == vf_begin0.idx && ' + FOC + ' == g_cs_has_f && self->objectMap.size == g_cs_size && ' +
                                      OBJ + ' == g_cs_obj && (g_cs_obj == 0 || g_cs_obj == &vf_fobj) && self->objectMap.felem.first.id == vf_fk && vf_fobj.life == VF_LIVE && vf_oobj.life == VF_LIVE && vf_oobj.refs >= 1 && vf_oobj.refs < 100 + (int)vf_begin0.idx && vf_begin0.idx < 5001 && self->objectMap.size < 5000 && '
                                      '((' + FOC + ' && self->objectMap.fpos < vf_begin0.idx) ? (vf_ret->f.p == g_cs_obj && vf_ret->fidx == self->objectMap.fpos && vf_fobj.refs == g_cs_refs + (g_cs_obj != 0 ? 1 : 0)) : (vf_ret->f.p == 0 && vf_fobj.refs == g_cs_refs)) && g_cs_refs >= 1 && g_cs_refs < 100',
                               'scan: one copy per visited entry')],
                   assigns='vf_begin0.idx, self->objectMap.other, vf_ret->size, vf_ret->f, vf_ret->fidx, vf_ret->other, vf_fobj.refs, vf_oobj.refs', decreases='self->objectMap.size - vf_begin0.idx')})
FN[r'SearchableObjectHolder::addType'] = entry(
    ensures=[('C17', 'name->id == vf_fk ==> (self->typeMap.has_f && (type == vf_ft ==> self->typeMap.felem.second.has_t) && '
                     '(g_cs_thas_f ==> self->typeMap.felem.second.size >= 1))', 'the tag is appended to the tags of that name'),
             ('C17', FOC + ' == g_cs_has_f && ' + OBJ + ' == g_cs_obj && !vf_exc', 'the object map is not touched')],
    assigns=['*self, ' + SG])
FN[r'SearchableObjectHolder::checkObjectType'] = entry(
    ensures=[('C17', '(!vf_exc && name->id == vf_fk && type == vf_ft) ==> (__CPROVER_return_value == (self->typeMap.has_f && self->typeMap.felem.second.has_t))',
              'true exactly when the name carries that tag (focus name, focus tag)'),
             ('C17', '(name->id == vf_fk && !self->typeMap.has_f) ==> !__CPROVER_return_value', 'a name without tags has no type'),
             ('C17', 'self->typeMap.has_f == g_cs_thas_f && !vf_exc', 'lookups do not modify the maps')],
    assigns=['*self, ' + SG],
    loops={0: dict(invariant=[('C17', 'vf_begin0.v == vf_range0 && vf_end0.v == vf_range0 && vf_end0.idx == vf_range0->size && vf_begin0.idx <= vf_range0->size && LOCKED(self) && vf_held == 1 && !vf_exc && SOH_OK_L(self) && '
                                      'self->typeMap.has_f == g_cs_thas_f && (vf_range0 == &self->typeMap.felem.second || vf_range0 == &self->typeMap.other.second) && '
                                      '(!vf_range0->has_t || vf_range0->tpos < vf_range0->size) && ((vf_range0->has_t && type == vf_ft) ==> vf_begin0.idx <= vf_range0->tpos)',
                               'scan of the tag vector: the focus tag has not been passed without returning')],
                   assigns='vf_begin0.idx, vf_range0->scratch', decreases='vf_range0->size - vf_begin0.idx')})
FN[r'SearchableObjectHolder::ctor'] = dict(
    props='C17', requires=['!vf_exc'],
    ensures=[('C17', 'self->objectMap.size == 0 && !self->objectMap.has_f && self->typeMap.size == 0 && !self->typeMap.has_f && !self->mapLock.excl_me && !vf_exc', 'a new holder is empty and unlocked')],
    assigns='*self')
