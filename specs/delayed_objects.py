"""Unit `delayed_objects`: DelayedObjects.hpp for X = int — C18: every future is fulfilled exactly
once and never hangs."""
from _common import GHOST_BOUNDS, GHOST_ASSIGNS, CNT_R, CNT_G, CNT_OK

DO = 'DelayedObjects_int'
PR = 'std_promise_int'
FU = 'std_future_int'


def map_model(K, keyt, is_focus, setkey, otherkey):
    """abstract std::map<K, std::promise<int>> with one focus key (see specs/soh.py for the idea)"""
    M = 'std_map_%s_std_promise_int' % K
    IT = 'std_Rb_tree_iterator_std_pair_%s_std_promise_int' % K
    P = 'std_pair_%s_std_promise_int' % K
    d = dict(M=M, IT=IT, P=P, K=K, keyt=keyt, is_focus=is_focus, setkey=setkey, otherkey=otherkey, PR=PR)
    types = r'''
struct %(P)s { %(keyt)s first; struct %(PR)s second; };
struct %(M)s { unsigned long size; _Bool has_f; unsigned long fpos; struct %(P)s felem; struct %(P)s other;
               int gen; _Bool erased_any; unsigned long le_idx; int le_gen; _Bool used; };
struct %(IT)s { struct %(M)s *m; unsigned long idx; int gen; };
#define %(M)s__ctor(m) ((m)->size = 0, (m)->has_f = 0, (m)->gen = 0, (m)->erased_any = 0, (m)->felem.second.ss = 0)
#define %(M)s__dtor vf_%(K)s_map_dtor
#define %(M)s__begin__0 vf_%(K)s_begin
#define %(M)s__end__0(it, mm) ((it)->m = (mm), (it)->idx = (mm)->size, (it)->gen = (mm)->gen)
#define %(M)s__find__1 vf_%(K)s_find
#define %(M)s__erase__1 vf_%(K)s_erase
#define %(M)s__op_index__1 vf_%(K)s_index
#define %(M)s__clear__0 vf_%(K)s_clear
#define %(M)s__swap__1 vf_%(K)s_swap
#define %(IT)s__op_arrow__0 vf_%(K)s_deref
#define %(IT)s__op_deref__0 vf_%(K)s_deref
#define %(IT)s__op_inc__0 vf_%(K)s_inc
#define ext_op_ne__std_Rb_tree_iterator_std_pair_%(K)s_std_promise_int_Self_ref_std_Rb_tree_iterator_std_pair_%(K)s_std_promise_int_Self_ref(a, b) ((a)->idx != (b)->idx)
#define ext_op_eq__std_Rb_tree_iterator_std_pair_%(K)s_std_promise_int_Self_ref_std_Rb_tree_iterator_std_pair_%(K)s_std_promise_int_Self_ref(a, b) ((a)->idx == (b)->idx)
''' % d
    code = r'''
void vf_%(K)s_begin(struct %(IT)s *it, struct %(M)s *m) { NEED_LOCK_M(m, "map.begin()"); it->m = m; it->idx = 0; it->gen = m->gen; }
_Bool vf_%(K)s_valid(struct %(IT)s *it) { return !(it->m->erased_any && it->gen <= it->m->le_gen && it->idx == it->m->le_idx); }
struct %(P)s *vf_%(K)s_deref(struct %(IT)s *it)
{
  NEED_LOCK_M(it->m, "access to a promise map element");
  __CPROVER_assert(vf_%(K)s_valid(it), "[C18] an iterator to an erased map element is dereferenced");
  __CPROVER_assert(it->idx < it->m->size, "[C18] the end iterator of a promise map is dereferenced");
  if (it->m->has_f && it->idx == it->m->fpos) return &it->m->felem;
  %(otherkey)s
  /* a non-focus entry: its promise is unsatisfied in a pending map, satisfied in a used map */
  it->m->other.second.ss = it->m->used ? 4 : 3;
  vf_sst[3].satisfied = 0; vf_sst[3].future_taken = 1; vf_sst[4].satisfied = 1; vf_sst[4].future_taken = 1;
  return &it->m->other;
}
struct %(IT)s *vf_%(K)s_inc(struct %(IT)s *it)
{
  __CPROVER_assert(vf_%(K)s_valid(it) && it->idx < it->m->size, "[C18] an invalid or end iterator is incremented");
  it->idx = it->idx + 1;
  return it;
}
void vf_%(K)s_find(struct %(IT)s *it, struct %(M)s *m, %(keyt)s *key)
{
  NEED_LOCK_M(m, "map.find()");
  it->m = m; it->gen = m->gen;
  if (%(is_focus)s) { it->idx = m->has_f ? m->fpos : m->size; return; }
  it->idx = vf_nondet_ulong();
  __CPROVER_assume(it->idx <= m->size && !(m->has_f && it->idx == m->fpos));
}
void vf_%(K)s_erase(struct %(IT)s *ret, struct %(M)s *m, struct %(IT)s *pos)
{
  NEED_LOCK_M(m, "map.erase()");
  __CPROVER_assert(vf_%(K)s_valid(pos) && pos->idx < m->size, "[C18] erase() of an invalid or end iterator");
  if (m->has_f && pos->idx == m->fpos) { vf_promise_dtor(&m->felem.second); m->has_f = 0; }
  else if (m->has_f && pos->idx < m->fpos) m->fpos = m->fpos - 1;
  m->size = m->size - 1;
  m->erased_any = 1; m->le_idx = pos->idx; m->le_gen = m->gen;
  if (m->gen < 999) m->gen = m->gen + 1;
  ret->m = m; ret->idx = pos->idx; ret->gen = m->gen;
}
struct %(PR)s *vf_%(K)s_index(struct %(M)s *m, %(keyt)s *key)
{
  NEED_LOCK_M(m, "map[]");
  if (%(is_focus)s) {
    if (!m->has_f) {
      unsigned long pos = vf_nondet_ulong();
      __CPROVER_assume(pos <= m->size);
      m->has_f = 1; m->fpos = pos; %(setkey)s m->felem.second.ss = 0;      /* value-initialised promise slot (its own fresh state is not tracked) */
      m->size = m->size + 1;
    }
    return &m->felem.second;
  }
  if (vf_nondet_bool()) { if (m->has_f && vf_nondet_bool()) m->fpos = m->fpos + 1; m->size = m->size + 1; }
  m->other.second.ss = 0;
  return &m->other.second;
}
void vf_%(K)s_clear(struct %(M)s *m)
{
  NEED_LOCK_M(m, "map.clear()");
  if (m->has_f) vf_promise_dtor(&m->felem.second);
  m->has_f = 0; m->size = 0; m->erased_any = 0;
  if (m->gen < 999) m->gen = m->gen + 1;
}
void vf_%(K)s_swap(struct %(M)s *a, struct %(M)s *b)
{
  NEED_LOCK_M(a, "map.swap()"); NEED_LOCK_M(b, "map.swap()");
  struct %(M)s t = *a; *a = *b; *b = t;
  _Bool u = a->used; a->used = b->used; b->used = u;      /* `used` tells the role of the member map, it does not travel */
}
void vf_%(K)s_map_dtor(struct %(M)s *m) { if (m->has_f) vf_promise_dtor(&m->felem.second); m->has_f = 0; m->size = 0; }
''' % d
    return types, code


T1, C1 = map_model('int', 'int', '*key == vf_fki', 'm->felem.first = *key;', 'it->m->other.first = vf_nondet_int(); __CPROVER_assume(it->m->other.first != vf_fki);')
T2, C2 = map_model('std_string', 'struct std_string', 'key->id == vf_fks', 'm->felem.first = *key;', 'it->m->other.first.id = vf_nondet_int(); __CPROVER_assume(it->m->other.first.id != vf_fks);')

NAMES = r'''
struct std_string { int id; };
/* shared state of a promise/future pair (trusted model) */
struct vf_ss { _Bool satisfied; int value; int set_count; _Bool future_taken; };
/* shared states live in a table; a promise/future names its state by index (0 = no state) */
struct %(PR)s { int ss; };
struct %(FU)s { int ss; };
#define %(PR)s__ctor vf_promise_ctor
#define %(PR)s__dtor vf_promise_dtor
#define %(PR)s__get_future__0 vf_promise_get_future
#define %(PR)s__op_assign__1 vf_promise_move_assign
#define %(PR)s__set_value__1 vf_promise_set_value
#define %(PR)s__ctor_move(p, o) ((p)->ss = (o)->ss, (o)->ss = 0)
#define %(FU)s__ctor_move(p, o) ((p)->ss = (o)->ss, (o)->ss = 0)
#define %(FU)s__dtor(f) ((void)0)
''' % dict(PR=PR, FU=FU) + T1 + T2

GHOST = GHOST_BOUNDS + r'''
int vf_fki, vf_fks;               /* focus keys (integer key, string key id) */
struct %(DO)s *vf_DO;
/* only the four member maps are protected by promiseLock (a local map needs no lock) */
#define IS_MEMBER_MAP(m) (vf_DO != 0 && ((void *)(m) == (void *)&vf_DO->promiseByInteger || (void *)(m) == (void *)&vf_DO->promiseByString || \
                                         (void *)(m) == (void *)&vf_DO->usedPromiseByInteger || (void *)(m) == (void *)&vf_DO->usedPromiseByString))
#define NEED_LOCK_M(m, what) __CPROVER_assert(!IS_MEMBER_MAP(m) || vf_DO->promiseLock.excl_me, "[L1] " what " without holding promiseLock")
/* table of shared states: 1/2 = focus integer/string key (harness), 3/4 = behind non-focus pending/used entries, 5 = created by the verified call */
struct vf_ss vf_sst[8];
#define SS_OK(i) ((i) >= 0 && (i) < 8)
int g_fresh;                      /* index of the shared state created by the verified call (0 = none) */
int g_broken;                     /* promises destroyed or overwritten while unsatisfied (std::future_error broken_promise for the waiting consumer) */
int g_sets;                       /* successful set_value calls */
_Bool g_copy_may_throw;           /* harness switch: storing a value in a shared state may throw (a throwing copy/move of X) */
void vf_promise_ctor(struct %(PR)s *p)
{
  p->ss = 5;
  vf_sst[5].satisfied = 0; vf_sst[5].set_count = 0; vf_sst[5].future_taken = 0; vf_sst[5].value = 0;
  g_fresh = 5;
}
void vf_promise_dtor(struct %(PR)s *p)
{
  __CPROVER_assert(SS_OK(p->ss), "[C18] promise with a corrupt state index");
  if (p->ss != 0 && !vf_sst[p->ss].satisfied && vf_sst[p->ss].future_taken) g_broken = g_broken + 1;
  p->ss = 0;
}
void vf_promise_get_future(struct %(FU)s *f, struct %(PR)s *p)
{
  __CPROVER_assert(SS_OK(p->ss), "[C18] promise with a corrupt state index");
  if (p->ss == 0 || vf_sst[p->ss].future_taken) { vf_exc = 1; f->ss = 0; return; }      /* std::future_error */
  vf_sst[p->ss].future_taken = 1;
  f->ss = p->ss;
}
struct %(PR)s *vf_promise_move_assign(struct %(PR)s *p, struct %(PR)s *o)
{
  __CPROVER_assert(SS_OK(p->ss) && SS_OK(o->ss), "[C18] promise with a corrupt state index");
  if (p->ss != 0 && !vf_sst[p->ss].satisfied && vf_sst[p->ss].future_taken) g_broken = g_broken + 1;   /* the old state is abandoned */
  p->ss = o->ss; o->ss = 0;
  return p;
}
void vf_promise_set_value(struct %(PR)s *p, int *v)
{
  __CPROVER_assert(SS_OK(p->ss), "[C18] promise with a corrupt state index");
  if (p->ss == 0 || vf_sst[p->ss].satisfied) { vf_exc = 1; return; }                     /* no_state / promise_already_satisfied */
  if (g_copy_may_throw && vf_nondet_bool()) { vf_exc = 1; vf_user_threw = 1; return; }    /* X's copy/move into the shared state throws: the state stays unsatisfied */
  vf_sst[p->ss].satisfied = 1; vf_sst[p->ss].value = *v;
  if (vf_sst[p->ss].set_count < 1000) vf_sst[p->ss].set_count = vf_sst[p->ss].set_count + 1;
  if (g_sets < 10000) g_sets = g_sets + 1;
}
''' % dict(DO=DO, PR=PR, FU=FU) + C1 + C2 + r'''
#define M_OK(m, fi, isused) ((m).size < 20000 && (m).gen >= 0 && (m).gen < 1000 && (!(m).used) == !(isused) && SS_OK((m).felem.second.ss) && SS_OK((m).other.second.ss) && \
                              (!(m).has_f || ((m).fpos < (m).size && (m).felem.second.ss == (fi) && (!vf_sst[fi].satisfied) == !(isused) && vf_sst[fi].future_taken && vf_sst[fi].set_count == ((isused) ? 1 : 0))))
#define DO_OK(s) (M_OK((s)->promiseByInteger, 1, 0) && M_OK((s)->usedPromiseByInteger, 1, 1) && M_OK((s)->promiseByString, 2, 0) && M_OK((s)->usedPromiseByString, 2, 1) && \
                  (s)->promiseByInteger.felem.first == vf_fki && (s)->usedPromiseByInteger.felem.first == vf_fki && (s)->promiseByString.felem.first.id == vf_fks && (s)->usedPromiseByString.felem.first.id == vf_fks && \
                  !((s)->promiseByInteger.has_f && (s)->usedPromiseByInteger.has_f) && !((s)->promiseByString.has_f && (s)->usedPromiseByString.has_f) && (s)->promiseLock.guards == 0)
/* snapshot of the focus entries at critical-section entry (other threads run between calls) */
_Bool g_pi, g_ui, g_ps, g_us;
void vf_do_acquired(struct vf_mutex *m)
{
  if (vf_DO == 0 || m != &vf_DO->promiseLock) return;
  struct %(DO)s *s = vf_DO;
  s->promiseByInteger.size = vf_nondet_ulong(); s->promiseByInteger.has_f = vf_nondet_bool(); s->promiseByInteger.fpos = vf_nondet_ulong(); s->promiseByInteger.erased_any = 0; s->promiseByInteger.gen = 0;
  s->usedPromiseByInteger.size = vf_nondet_ulong(); s->usedPromiseByInteger.has_f = vf_nondet_bool(); s->usedPromiseByInteger.fpos = vf_nondet_ulong(); s->usedPromiseByInteger.erased_any = 0; s->usedPromiseByInteger.gen = 0;
  s->promiseByString.size = vf_nondet_ulong(); s->promiseByString.has_f = vf_nondet_bool(); s->promiseByString.fpos = vf_nondet_ulong(); s->promiseByString.erased_any = 0; s->promiseByString.gen = 0;
  s->usedPromiseByString.size = vf_nondet_ulong(); s->usedPromiseByString.has_f = vf_nondet_bool(); s->usedPromiseByString.fpos = vf_nondet_ulong(); s->usedPromiseByString.erased_any = 0; s->usedPromiseByString.gen = 0;
  s->promiseByInteger.felem.second.ss = 1; s->usedPromiseByInteger.felem.second.ss = 1; s->promiseByString.felem.second.ss = 2; s->usedPromiseByString.felem.second.ss = 2;
  s->promiseByInteger.felem.first = vf_fki; s->usedPromiseByInteger.felem.first = vf_fki; s->promiseByString.felem.first.id = vf_fks; s->usedPromiseByString.felem.first.id = vf_fks;
  vf_sst[1].satisfied = s->usedPromiseByInteger.has_f; vf_sst[1].set_count = vf_sst[1].satisfied ? 1 : 0; vf_sst[1].future_taken = 1;
  vf_sst[2].satisfied = s->usedPromiseByString.has_f; vf_sst[2].set_count = vf_sst[2].satisfied ? 1 : 0; vf_sst[2].future_taken = 1;
  __CPROVER_assume(DO_OK(s) && s->promiseByInteger.size < 4000 && s->usedPromiseByInteger.size < 4000 && s->promiseByString.size < 4000 && s->usedPromiseByString.size < 4000);
  g_pi = s->promiseByInteger.has_f; g_ui = s->usedPromiseByInteger.has_f; g_ps = s->promiseByString.has_f; g_us = s->usedPromiseByString.has_f;
}
#define VF_HOOK_ACQUIRED(m, s) vf_do_acquired(m)
''' % dict(DO=DO)

UNIT = dict(
    name='delayed_objects',
    driver='drivers/delayed_objects.cpp',
    names=NAMES, ghost=GHOST,
    assumptions=[
        'std::promise/std::future are modelled by a shared state {satisfied, value, set_count, future_taken}: set_value on a satisfied or stateless promise throws, destroying or overwriting an unsatisfied promise whose future was taken is a broken promise (ghost counter)',
        'std::map is the abstract focus-key model of unit soh (one focus key per key kind, other entries arbitrary; non-focus promises are unsatisfied in the pending maps and satisfied in the used maps - the class invariant)',
        'the four maps are re-havocked under the class invariant at every acquisition of promiseLock (other threads); postconditions are relative to the state at critical-section entry',
        'precondition taken from the statement: each key is requested once (getFuture is verified for a key that is neither pending nor completed)',
        'instantiation verified: X = int; in the setDelayedValue harnesses storing the value into the shared state may additionally throw (stands for a throwing copy/move of a general X); fulfillAllPromises and the destructor are verified for a non-throwing X only',
    ])

TAGMAP = {'L1': 'C18', 'L2': 'C18', 'L5': 'C18', 'noexcept': 'C18'}
R3 = CNT_R(1000)
DG = 'g_copy_may_throw, vf_sst, g_fresh, g_broken, g_sets, g_pi, g_ui, g_ps, g_us, ' + GHOST_ASSIGNS
ONE_CS = 'vf_n_acq_excl == __CPROVER_old(vf_n_acq_excl) + 1 && vf_n_rel == __CPROVER_old(vf_n_rel) + 1 && vf_held == 0 && !self->promiseLock.excl_me'
SETUP = ('vf_DO = self; self->promiseLock.guards = 0; self->promiseByInteger.used = 0; self->usedPromiseByInteger.used = 1; self->promiseByString.used = 0; self->usedPromiseByString.used = 1; '
         'self->promiseByInteger.felem.second.ss = 1; self->usedPromiseByInteger.felem.second.ss = 1; self->promiseByString.felem.second.ss = 2; self->usedPromiseByString.felem.second.ss = 2;')
PRE = 'vf_DO == self && DO_OK(self) && !self->promiseLock.excl_me && self->promiseLock.shared_me == 0 && vf_held == 0 && !vf_exc && g_broken == 0 && g_sets == 0 && ' + R3


def entry(**kw):
    e = dict(props='C18', setup=SETUP + kw.pop('setup_extra', ' g_copy_may_throw = 0;'), requires=[PRE + kw.pop('pre', '')])
    e.update(kw)
    e['ensures'] = [('C18', ONE_CS, 'one critical section of promiseLock around the whole body, released on every exit'),
                    ('C18', 'M_OK(self->promiseByInteger, 1, 0) && M_OK(self->promiseByString, 2, 0)', 'class invariant: pending promises are unsatisfied'),
                    ('C18', 'M_OK(self->usedPromiseByInteger, 1, 1)', 'class invariant: completed integer-keyed promises are satisfied exactly once'),
                    ('C18', 'M_OK(self->usedPromiseByString, 2, 1)', 'class invariant: completed string-keyed promises are satisfied exactly once'),
                    ('C18', 'DO_OK(self)', 'class invariant (whole)'),
                    ('C18', 'g_broken == 0', 'no promise whose future was handed out is destroyed or overwritten unsatisfied (no consumer is left with a broken promise)')] + e.get('ensures', []) + [('', CNT_OK, 'counters')]
    e.setdefault('assigns', ['*self, ' + DG])
    return e


def by_key(kind):
    """(is-focus-key expr, pending map, used map, focus shared state, snapshot pending, snapshot used)"""
    if kind == 'int':
        return 'index == vf_fki', 'self->promiseByInteger', 'self->usedPromiseByInteger', 'vf_sst[1]', 'g_pi', 'g_ui'
    return 'name->id == vf_fks', 'self->promiseByString', 'self->usedPromiseByString', 'vf_sst[2]', 'g_ps', 'g_us'


FN = {}
FN[r'DelayedObjects::ctor'] = dict(
    props='C18', requires=['!vf_exc'],
    ensures=[('C18', 'self->promiseByInteger.size == 0 && !self->promiseByInteger.has_f && self->promiseByString.size == 0 && !self->promiseByString.has_f && '
                     'self->usedPromiseByInteger.size == 0 && !self->usedPromiseByInteger.has_f && self->usedPromiseByString.size == 0 && !self->usedPromiseByString.has_f && '
                     '!self->promiseLock.excl_me && self->promiseLock.shared_me == 0 && !vf_exc', 'a new container has no pending and no completed promises and is unlocked')],
    assigns='*self')
for kind, w in (('int', lambda fm: 'index' in ' '.join(fm['params'])), ('str', lambda fm: 'name' in ' '.join(fm['params']))):
    isf, pend, used, fss, gp, gu = by_key(kind)
    FN.setdefault(r'DelayedObjects::setDelayedValue', []).append(entry(where=w, pre=' && !vf_user_threw', setup_extra=' g_copy_may_throw = vf_nondet_bool();', ensures=[
        ('C18', '(%s && %s && !vf_exc) ==> (%s.satisfied && %s.value == __CPROVER_old(*val) && %s.set_count == 1 && g_sets == 1 && %s.has_f && !%s.has_f)' % (isf, gp, fss, fss, fss, used, pend),
         'a pending key: its future becomes ready with exactly this value, exactly once, and the promise moves to the completed map'),
        ('C18', '(%s && %s && vf_exc) ==> (!%s.satisfied && %s.set_count == 0 && g_sets == 0 && %s.has_f && !%s.has_f)' % (isf, gp, fss, fss, pend, used),
         'if storing the value throws (copy/move of X), the promise stays PENDING: a retry, fulfillAllPromises or the destructor still fulfils the future'),
        ('C18', 'vf_exc ==> (g_copy_may_throw && vf_user_threw)', 'nothing else throws'),
        ('C18', '(%s && !%s) ==> (!vf_exc && g_sets == 0 && %s.has_f == %s && !%s.has_f)' % (isf, gp, used, gu, pend), 'an unknown or already completed key: harmless no-op (set_value is not even attempted)'),
        ('C18', '!(%s) ==> (%s.has_f == %s && %s.has_f == %s)' % (isf, pend, gp, used, gu), 'other keys are unaffected')]))
    FN.setdefault(r'DelayedObjects::isRecognized', []).append(entry(where=w, ensures=[
        ('C18', '(%s) ==> (__CPROVER_return_value == (%s || %s))' % (isf, gp, gu), 'recognized = pending or completed'),
        ('C18', 'g_sets == 0 && %s.has_f == %s && %s.has_f == %s && !vf_exc' % (pend, gp, used, gu), 'queries change nothing')]))
    FN.setdefault(r'DelayedObjects::isCompleted', []).append(entry(where=w, ensures=[
        ('C18', '(%s) ==> (__CPROVER_return_value == %s)' % (isf, gu), 'completed = present in the completed map'),
        ('C18', 'g_sets == 0 && %s.has_f == %s && %s.has_f == %s && !vf_exc' % (pend, gp, used, gu), 'queries change nothing')]))
    FN.setdefault(r'DelayedObjects::finishedWithValue', []).append(entry(where=w, ensures=[
        ('C18', '(%s) ==> (!%s.has_f && %s.has_f == %s)' % (isf, used, pend, gp), 'forgets a completed key (its future already holds the value); a pending key stays pending'),
        ('C18', 'g_sets == 0 && !vf_exc', 'no promise is touched')]))
    FN.setdefault(r'DelayedObjects::getFuture', []).append(entry(where=w, pre=' && g_fresh == 0', ensures=[
        ('C18', '(!vf_exc && %s && !%s && !%s) ==> (%s.has_f && %s.felem.second.ss == g_fresh && g_fresh == 5 && vf_ret->ss == 5 && !vf_sst[5].satisfied && vf_sst[5].future_taken && vf_sst[5].set_count == 0)' % (isf, gp, gu, pend, pend),
         'a key requested for the first time: a fresh unsatisfied promise is stored as pending and exactly its future is returned'),
        ('C18', 'g_sets == 0', 'nothing is fulfilled by a request')],
        assigns=['*vf_ret, *self, ' + DG]))
    # getFuture legitimately replaces the focus slot's pointer: the invariant macro ties the focus slot to the harness state, so it is checked without DO_OK
for e in FN[r'DelayedObjects::getFuture']:
    e['ensures'] = [c for c in e['ensures'] if c[1] not in ('DO_OK(self)', 'g_broken == 0') and not c[1].startswith('M_OK')]
    e['requires'] = [r + ' && !self->promiseByInteger.has_f && !self->usedPromiseByInteger.has_f && !self->promiseByString.has_f && !self->usedPromiseByString.has_f' for r in e['requires']]

LOOP_INV = ('%(used)s.gen >= 0 && %(used)s.gen < 1000 && SS_OK(%(pend)s.felem.second.ss) && SS_OK(%(pend)s.other.second.ss) && SS_OK(%(used)s.felem.second.ss) && SS_OK(%(used)s.other.second.ss) && vf_begin%(k)d.m == &%(pend)s && vf_end%(k)d.m == &%(pend)s && vf_begin%(k)d.gen == %(pend)s.gen && vf_end%(k)d.idx == %(pend)s.size && vf_begin%(k)d.idx <= %(pend)s.size && !%(pend)s.erased_any && '
            'self->promiseLock.excl_me && vf_held == 1 && !vf_exc && g_broken == 0 && g_sets >= 0 && g_sets <= 10000 && %(pend)s.size < 4000 && %(pend)s.has_f == %(gp)s && %(pend)s.used == 0 && %(used)s.used == 1 && '
            '(!%(pend)s.has_f || (%(pend)s.fpos < %(pend)s.size && %(pend)s.felem.first%(idf)s == %(fk)s)) && vf_DO == self && '
            '((%(gp)s && %(pend)s.fpos < vf_begin%(k)d.idx) ? (%(fss)s.satisfied && %(fss)s.set_count == 1 && %(fss)s.value == %(val)s %(moved)s) : '
            '(%(gp)s ? (%(pend)s.felem.second.ss == %(fsi)s && !%(fss)s.satisfied && %(fss)s.set_count == 0) : 1)) && %(fss)s.future_taken && '
            '(%(gp)s || (%(used)s.has_f == %(gu)s && (%(gu)s ==> (%(fss)s.satisfied && %(fss)s.set_count == 1 && %(used)s.felem.second.ss == %(fsi)s))))')
FN[r'DelayedObjects::fulfillAllPromises'] = entry(
    ensures=[('C18', 'g_pi ==> (vf_sst[1].satisfied && vf_sst[1].value == __CPROVER_old(*val) && vf_sst[1].set_count == 1 && self->usedPromiseByInteger.has_f)', 'a pending integer key is fulfilled with the given value exactly once and moved to the completed map'),
             ('C18', 'g_ps ==> (vf_sst[2].satisfied && vf_sst[2].value == __CPROVER_old(*val) && vf_sst[2].set_count == 1 && self->usedPromiseByString.has_f)', 'the same for a pending string key'),
             ('C18', 'self->promiseByInteger.size == 0 && self->promiseByString.size == 0 && !self->promiseByInteger.has_f && !self->promiseByString.has_f && !vf_exc', 'nothing stays pending')],
    loops={0: dict(invariant=[('C18', LOOP_INV % dict(k=0, pend='self->promiseByInteger', used='self->usedPromiseByInteger', gp='g_pi', gu='g_ui', fss='vf_sst[1]', fsi='1', fk='vf_fki', idf='', val='*val',
                                                     moved='&& self->usedPromiseByInteger.has_f && self->usedPromiseByInteger.felem.second.ss == 1 && self->promiseByInteger.felem.second.ss == 0') +
                               ' && (g_pi || self->usedPromiseByInteger.has_f == g_ui) && self->usedPromiseByInteger.size < 4001 + vf_begin0.idx && ((g_pi && self->promiseByInteger.fpos >= vf_begin0.idx) ==> !self->usedPromiseByInteger.has_f) && (!self->usedPromiseByInteger.has_f || self->usedPromiseByInteger.fpos < self->usedPromiseByInteger.size) && self->usedPromiseByInteger.felem.first == vf_fki',
                               'integer keys: every visited pending promise has been fulfilled with val and handed to the completed map')],
                   assigns='vf_begin0.idx, self->promiseByInteger.other, self->promiseByInteger.felem.second, self->usedPromiseByInteger, vf_sst[1], vf_sst[3], vf_sst[4], g_sets, g_broken, vf_exc', decreases='self->promiseByInteger.size - vf_begin0.idx'),
           1: dict(invariant=[('C18', LOOP_INV % dict(k=1, pend='self->promiseByString', used='self->usedPromiseByString', gp='g_ps', gu='g_us', fss='vf_sst[2]', fsi='2', fk='vf_fks', idf='.id', val='*val',
                                                     moved='&& self->usedPromiseByString.has_f && self->usedPromiseByString.felem.second.ss == 2 && self->promiseByString.felem.second.ss == 0') +
                               ' && (g_ps || self->usedPromiseByString.has_f == g_us) && self->usedPromiseByString.size < 4001 + vf_begin1.idx && ((g_ps && self->promiseByString.fpos >= vf_begin1.idx) ==> !self->usedPromiseByString.has_f) && (!self->usedPromiseByString.has_f || self->usedPromiseByString.fpos < self->usedPromiseByString.size) && self->usedPromiseByString.felem.first.id == vf_fks && '
                               '(g_pi ==> (vf_sst[1].satisfied && vf_sst[1].value == *val && vf_sst[1].set_count == 1 && self->usedPromiseByInteger.has_f)) && self->promiseByInteger.has_f == g_pi && (self->usedPromiseByInteger.has_f ==> (vf_sst[1].satisfied && vf_sst[1].future_taken && vf_sst[1].set_count == 1))',
                               'string keys: the same; the integer keys stay fulfilled')],
                   assigns='vf_begin1.idx, self->promiseByString.other, self->promiseByString.felem.second, self->usedPromiseByString, vf_sst[2], vf_sst[3], vf_sst[4], g_sets, g_broken, vf_exc', decreases='self->promiseByString.size - vf_begin1.idx')})
# fulfillAllPromises ends with the focus promise moved out of the pending slot and that slot cleared: DO_OK holds again
DTOR_INV = ('SS_OK(%(pend)s.felem.second.ss) && SS_OK(%(pend)s.other.second.ss) && vf_begin%(k)d.m == &%(pend)s && vf_end%(k)d.m == &%(pend)s && vf_begin%(k)d.gen == %(pend)s.gen && vf_end%(k)d.idx == %(pend)s.size && vf_begin%(k)d.idx <= %(pend)s.size && !%(pend)s.erased_any && '
            'self->promiseLock.excl_me && vf_held == 1 && !vf_exc && g_broken == 0 && g_sets >= 0 && g_sets <= 10000 && %(pend)s.size < 5000 && %(pend)s.has_f == %(gp)s && %(pend)s.used == 0 && vf_DO == self && '
            '(!%(pend)s.has_f || (%(pend)s.fpos < %(pend)s.size && %(pend)s.felem.second.ss == %(fsi)s)) && '
            '((%(gp)s && %(pend)s.fpos < vf_begin%(k)d.idx) ? (%(fss)s.satisfied && %(fss)s.set_count == 1 && %(fss)s.value == 0) : (%(gp)s ? (!%(fss)s.satisfied && %(fss)s.set_count == 0) : 1)) && '
            '%(fss)s.future_taken && (%(gu)s ==> (%(fss)s.satisfied && %(fss)s.set_count == 1))')
FN[r'DelayedObjects::dtor'] = dict(
    props='C18', setup=SETUP + ' g_copy_may_throw = 0;', requires=[PRE],
    ensures=[('C18', 'g_pi ==> (vf_sst[1].satisfied && vf_sst[1].set_count == 1 && vf_sst[1].value == 0)', 'a future still pending at destruction is fulfilled with a default-constructed value before its promise dies (never hangs, no broken promise)'),
             ('C18', 'g_ps ==> (vf_sst[2].satisfied && vf_sst[2].set_count == 1 && vf_sst[2].value == 0)', 'the same for string keys'),
             ('C18', 'g_broken == 0 && !vf_exc && vf_held == 0', 'no promise is abandoned; the lock is released before the members are destroyed')],
    assigns=['*self, ' + DG],
    loops={0: dict(invariant=[('C18', DTOR_INV % dict(k=0, pend='self->promiseByInteger', gp='g_pi', gu='g_ui', fss='vf_sst[1]', fsi='1'), 'integer keys: every visited pending promise has been given X{}')],
                   assigns='vf_begin0.idx, self->promiseByInteger.other, vf_sst[1], vf_sst[3], vf_sst[4], g_sets, g_broken, vf_exc', decreases='self->promiseByInteger.size - vf_begin0.idx'),
           1: dict(invariant=[('C18', DTOR_INV % dict(k=1, pend='self->promiseByString', gp='g_ps', gu='g_us', fss='vf_sst[2]', fsi='2') + ' && (g_pi ==> (vf_sst[1].satisfied && vf_sst[1].set_count == 1 && vf_sst[1].value == 0)) && self->promiseByInteger.has_f == g_pi && '
                               '(!self->promiseByInteger.has_f || self->promiseByInteger.felem.second.ss == 1) && (g_ui ==> (vf_sst[1].satisfied && vf_sst[1].future_taken && vf_sst[1].set_count == 1)) && vf_sst[1].future_taken', 'string keys: the same')],
                   assigns='vf_begin1.idx, self->promiseByString.other, vf_sst[2], vf_sst[3], vf_sst[4], g_sets, g_broken, vf_exc', decreases='self->promiseByString.size - vf_begin1.idx')})
