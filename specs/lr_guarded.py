"""Unit `lr_guarded`: lr_guarded.hpp — Scheme RG (rely/guarantee over ghost-instrumented atomics,
DESIGN.md section 4): C03 (readers see complete, current states), C14 (reads never wait for
writers; the writer waits only for handles still held), C20 (all-or-nothing modify)."""
from _common import GHOST_BOUNDS, GHOST_ASSIGNS, CNT_R, CNT_G, CNT_OK

UP = 'std_unique_ptr_vf_payload_lr_guarded_vf_payload_shared_deleter'
DEL = 'lr_guarded_vf_payload_std_mutex_shared_deleter'

UNIT = dict(
    name='lr_guarded',
    driver='drivers/lr_guarded.cpp',
    names=('struct %s;\n' % UP +
           '#define %s__ctor__pointer_enable_if_t_is_lvalue_reference_shared_deleter_value_lr_guarded_vf_payload_shared_deleter vf_up_ctor\n' % UP),
    assumptions=[
        'rely/guarantee soundness under SEQUENTIAL CONSISTENCY: every atomic operation is one model step surrounded by environment steps; all atomics of lr_guarded are seq_cst in the source (orders weaker than seq_cst are not interpreted, see C07)',
        'environment (rely) of the writer: readers register in a counter, then read the side flag, and enter only the copy the flag points to at that moment; they leave by decrementing the counter they registered in.  That each reader step is an instance of this rely is asserted in the reader-role hooks (RG3)',
        'environment of a reader: arbitrary changes of flags, counters and ghost population that keep the counter invariant (over-approximates any writer)',
        'mutex invariant of m_writeMutex (assumed at acquire, asserted at release, also on exceptional exits): both copies equal and complete, the copy readers are not directed to has no reader',
        'the functor makes the same modification on both invocations (client obligation stated in the header); modelled as version := version + 1',
        'a throwing repair copy (T::operator= inside the catch blocks) leaves the state indeterminate, as the header documents: postconditions are conditioned on the repair copy not throwing',
        'std::unique_ptr<const T, shared_deleter> is modelled by {pointer, deleter}: construction moves the deleter in (lowered move constructor), destruction calls the lowered shared_deleter::operator() iff the pointer is non-null',
        'fewer than 10^5 simultaneously registered readers / modifications (ghost counters)',
    ],
    ghost=GHOST_BOUNDS + r'''
struct lr_guarded_vf_payload_std_mutex *vf_U;
#define ROLE_WRITER 1
#define ROLE_READER 2
int g_role;
/* ghost reader population.  counter index c: 1 = m_leftReadCount, 0 = m_rightReadCount;
   copy index s: 1 = m_left, 0 = m_right.
   gq<c>: registered in counter c, side flag not read yet;  gr<c><s>: holding a handle on copy s */
int gq0, gq1, gr00, gr01, gr10, gr11;
#define GR(c, s) ((c) ? ((s) ? gr11 : gr10) : ((s) ? gr01 : gr00))
#define GQ(c) ((c) ? gq1 : gq0)
#define CNTV(c) ((c) ? vf_U->m_leftReadCount.v : vf_U->m_rightReadCount.v)
#define SIDE() (vf_U->m_readingLeft.v ? 1 : 0)
#define COPY(s) ((s) ? &vf_U->m_left : &vf_U->m_right)
#define POP_OK (gq0 >= 0 && gq1 >= 0 && gr00 >= 0 && gr01 >= 0 && gr10 >= 0 && gr11 >= 0 && \
                gq0 < VF_BIG && gq1 < VF_BIG && gr00 < VF_BIG && gr01 < VF_BIG && gr10 < VF_BIG && gr11 < VF_BIG)
#define LR_INV (POP_OK && vf_U->m_rightReadCount.v == gq0 + gr00 + gr01 && vf_U->m_leftReadCount.v == gq1 + gr10 + gr11)
/* mutex invariant: what every writer leaves behind */
#define LR_QUIET (GR(0, 1 - SIDE()) == 0 && GR(1, 1 - SIDE()) == 0 && vf_U->m_left.v == vf_U->m_right.v && \
                  !vf_U->m_left.torn && !vf_U->m_right.torn && vf_U->m_left.v >= 0 && vf_U->m_left.v < VF_BIG && \
                  vf_U->m_left.life == VF_LIVE && vf_U->m_right.life == VF_LIVE)
/* writer-role ghost */
int g_ver0;            /* version of both copies when the writer took the mutex */
int g_apps;            /* functor applications started by the verified call */
int g_phase;           /* 0 before the counter switch, 1 after */
_Bool g_flipped;       /* the side flag was redirected by the verified call */
/* reader-role ghost: the automaton load countingLeft -> RMW +1 -> load readingLeft */
int g_rstep;           /* 0,1,2,3 */
int g_rc;              /* counter index chosen (from the countingLeft value loaded) */
int g_rs;              /* side read */
int g_decs;            /* decrements performed by the verified deleter call */
void *g_dec_on;

void vf_havoc_pop(void)
{
  gq0 = vf_nondet_int(); gq1 = vf_nondet_int(); gr00 = vf_nondet_int(); gr01 = vf_nondet_int(); gr10 = vf_nondet_int(); gr11 = vf_nondet_int();
  __CPROVER_assume(POP_OK);
  vf_U->m_rightReadCount.v = gq0 + gr00 + gr01;
  vf_U->m_leftReadCount.v = gq1 + gr10 + gr11;
}
/* environment step seen by the writer: any number of reader steps */
void vf_env_writer(void)
{
  int o = 1 - SIDE();
  int o0 = GR(0, o), o1 = GR(1, o);
  vf_havoc_pop();
  /* rely: readers only ever enter the copy the side flag points to */
  __CPROVER_assume(GR(0, o) <= o0 && GR(1, o) <= o1);
}
/* environment step seen by a reader: writers and other readers do anything that keeps LR_INV */
void vf_env_reader(void)
{
  vf_havoc_pop();
  vf_U->m_readingLeft.v = vf_nondet_bool();
  vf_U->m_countingLeft.v = vf_nondet_bool();
  /* the verified reader's own registration is not undone by anybody else */
  if (g_rstep == 2) __CPROVER_assume(GQ(g_rc) >= 1);
}
void vf_lr_env(void)
{
  if (g_role == ROLE_WRITER) vf_env_writer();
  if (g_role == ROLE_READER) vf_env_reader();
}
void vf_lr_acquired(struct vf_mutex *m)
{
  if (m != &vf_U->m_writeMutex) return;
  __CPROVER_assert(g_role == ROLE_WRITER, "[C14] a read path acquires the writer mutex");
  /* other writers ran: anything that satisfies the mutex invariant */
  int v = vf_nondet_int();
  vf_U->m_readingLeft.v = vf_nondet_bool();
  vf_U->m_countingLeft.v = vf_nondet_bool();
  vf_U->m_left.v = v; vf_U->m_right.v = v; vf_U->m_left.torn = 0; vf_U->m_right.torn = 0;
  vf_havoc_pop();
  __CPROVER_assume(LR_INV && LR_QUIET && v < VF_BIG - 3);   /* fewer than 10^5 modifications */
  g_ver0 = v;
}
void vf_lr_releasing(struct vf_mutex *m)
{
  if (m != &vf_U->m_writeMutex) return;
  __CPROVER_assert(LR_INV, "[C03] counter invariant at writer unlock");
  __CPROVER_assert(vf_assign_threw || LR_QUIET,
                   "[C03] writer mutex invariant at unlock (normal and exceptional exit): both copies equal and complete, idle copy reader-free");
}
void vf_lr_access(struct vf_payload *p, int write)
{
  if (p != &vf_U->m_left && p != &vf_U->m_right) return;
  int s = (p == &vf_U->m_left) ? 1 : 0;
  if (write) {
    __CPROVER_assert(g_role == ROLE_WRITER && vf_U->m_writeMutex.excl_me, "[C03] a copy is modified outside the writer mutex");
    __CPROVER_assert(s != SIDE(), "[C03] the copy new readers are directed to is modified");
    __CPROVER_assert(GR(0, s) == 0 && GR(1, s) == 0, "[C03] a copy is modified while a reader may still hold a handle on it (a drain is missing or waits on the wrong counter)");
  }
}
void vf_lr_user(void)
{
  /* readers keep running while user code executes */
  vf_lr_env();
}
void vf_lr_atomic_read(void *a, long val)
{
  if (g_role == ROLE_WRITER) {
    if (a == (void *)&vf_U->m_leftReadCount || a == (void *)&vf_U->m_rightReadCount) {
      int c = (a == (void *)&vf_U->m_leftReadCount) ? 1 : 0;
      __CPROVER_assert(c != (vf_U->m_countingLeft.v ? 1 : 0),
                       "[C14] the writer awaits the counter new readers are currently directed to (it could be delayed by readers arriving later)");
      __CPROVER_assert(val == 0 || GQ(c) + GR(c, 0) + GR(c, 1) > 0, "[C14] the writer spins only while a reader is registered in the awaited counter");
    }
  }
  if (g_role == ROLE_READER) {
    if (a == (void *)&vf_U->m_countingLeft) {
      __CPROVER_assert(g_rstep == 0, "[C03] reader protocol: countingLeft is read first, once");
      g_rc = val ? 1 : 0; g_rstep = 1;
    }
    if (a == (void *)&vf_U->m_readingLeft) {
      __CPROVER_assert(g_rstep == 2, "[C03] reader protocol: the side flag is read only after registering in a counter");
      g_rs = val ? 1 : 0; g_rstep = 3;
      /* guarantee => writer rely: the reader enters exactly the copy the flag points to now */
      if (g_rc) { gq1 = gq1 - 1; if (g_rs) gr11 = gr11 + 1; else gr10 = gr10 + 1; }
      else { gq0 = gq0 - 1; if (g_rs) gr01 = gr01 + 1; else gr00 = gr00 + 1; }
      __CPROVER_assume(gr00 < VF_BIG && gr01 < VF_BIG && gr10 < VF_BIG && gr11 < VF_BIG);   /* fewer than 10^5 readers */
      __CPROVER_assert(g_rs == SIDE() && LR_INV, "[C03] RG: reader step is an instance of the writer's rely");
    }
  }
}
void vf_lr_atomic_write(void *a, long o, long n, int rmw)
{
  if (g_role == ROLE_WRITER) {
    __CPROVER_assert(vf_U->m_writeMutex.excl_me, "[C03] writer-side atomic write outside the writer mutex");
    __CPROVER_assert(a == (void *)&vf_U->m_readingLeft || a == (void *)&vf_U->m_countingLeft, "[C03] the writer modifies a reader counter");
    if (a == (void *)&vf_U->m_readingLeft && o != n) {
      /* a->v already holds n: SIDE() is the new side */
      struct vf_payload *ns = COPY(n ? 1 : 0), *os = COPY(n ? 0 : 1);
      __CPROVER_assert(!ns->torn && ns->life == VF_LIVE && ns->v >= os->v,
                       "[C03] the copy published to readers is complete and not older than the one they were reading");
      __CPROVER_assert(g_apps == 1 && ns->v == g_ver0 + 1, "[C03] readers are redirected after the first application and before the second");
      g_flipped = 1;
    }
    if (a == (void *)&vf_U->m_countingLeft && o != n) {
      __CPROVER_assert(g_flipped && g_phase == 0, "[C03] the counter switch happens once, after the side flag was redirected");
      __CPROVER_assert(GR(0, 1 - SIDE()) >= 0, "bookkeeping");
      g_phase = 1;
    }
  }
  if (g_role == ROLE_READER) {
    __CPROVER_assert(a == (void *)&vf_U->m_leftReadCount || a == (void *)&vf_U->m_rightReadCount, "[C03] a reader writes a side/counter flag");
    int c = (a == (void *)&vf_U->m_leftReadCount) ? 1 : 0;
    if (n == o + 1) {
      __CPROVER_assert(g_rstep == 1 && c == g_rc, "[C03] reader protocol: registers exactly once, in the counter selected by the countingLeft value just loaded");
      g_rstep = 2;
      __CPROVER_assume(GQ(c) < VF_BIG - 2);
      if (c) gq1 = gq1 + 1; else gq0 = gq0 + 1;
      __CPROVER_assert(LR_INV, "[C03] RG: registration keeps the counter invariant");
    } else if (n == o - 1) {
      g_decs = g_decs + 1;
      g_dec_on = (void *)a;
    } else {
      __CPROVER_assert(0, "[C03] a reader changes a counter by something other than +1 / -1");
    }
  }
}
#define VF_HOOK_ACQUIRED(m, s) vf_lr_acquired(m)
#define VF_HOOK_RELEASING(m, s) vf_lr_releasing(m)
#define VF_ACCESS(p, w) vf_lr_access(p, w)
#define VF_HOOK_USER() vf_lr_user()
#define VF_HOOK_FUNCTOR(p, w) do { if (g_apps < 10) g_apps = g_apps + 1; } while (0)
#define VF_HOOK_ATOMIC_PRE(a) vf_lr_env()
#define VF_HOOK_ATOMIC_POST(a) vf_lr_env()
#define VF_HOOK_ATOMIC_READ(a, val, mo) vf_lr_atomic_read(a, val)
#define VF_HOOK_ATOMIC_WRITE(a, o, n, mo, rmw) vf_lr_atomic_write(a, o, n, rmw)
#define VF_HOOK_YIELD() vf_lr_env()
#define VF_USER_WRITE_VALUE(p) ((p)->v + 1)

/* ---- model of std::unique_ptr<const T, shared_deleter> (trusted) ---- */
struct %(UP)s { struct vf_payload *p; struct %(DEL)s d; };
void %(DEL)s__ctor_move(struct %(DEL)s *self, struct %(DEL)s *o);
void %(DEL)s__op_call(struct %(DEL)s *self, struct vf_payload *ptr);
void vf_up_ctor(struct %(UP)s *self, struct vf_payload *p, struct %(DEL)s *d)
{
  self->p = p;
  %(DEL)s__ctor_move(&self->d, d);
}
void %(UP)s__dtor(struct %(UP)s *self)
{
  if (self->p != 0) %(DEL)s__op_call(&self->d, self->p);
  self->p = 0;
}
''' % dict(UP=UP, DEL=DEL))

TAGMAP = {'L1': 'C03', 'L2': 'C03 C20', 'L5': 'C03', 'life': 'C03 C20', 'noexcept': 'C20', 'arith': 'C03'}

R3, G3 = CNT_R(1000), CNT_G(50)
LR_G = 'gq0, gq1, gr00, gr01, gr10, gr11, g_ver0, g_apps, g_phase, g_flipped, g_rstep, g_rc, g_rs, g_decs, g_dec_on, ' + GHOST_ASSIGNS
W_SETUP = 'vf_U = self; g_role = ROLE_WRITER;'
R_SETUP = 'vf_U = self; g_role = ROLE_READER;'
DRAIN_INV = ('LR_INV && self->m_writeMutex.excl_me && vf_held == 1 && !vf_exc && g_apps == 1 && g_flipped && g_phase == %(phase)d && '
             'self->m_countingLeft.v == %(cl)s && '
             '%(r0)s && %(r1)s && '
             'vf_n_yield >= 0 && vf_n_yield <= VF_BIG && '
             'COPY((!self->m_readingLeft.v) ? 0 : 1)->v == g_ver0 + 1 && !COPY((!self->m_readingLeft.v) ? 0 : 1)->torn && '
             'COPY((!self->m_readingLeft.v) ? 1 : 0)->v == g_ver0 && !COPY((!self->m_readingLeft.v) ? 1 : 0)->torn')
DRAIN_ASSIGNS = 'self->m_leftReadCount.v, self->m_rightReadCount.v, gq0, gq1, gr00, gr01, gr10, gr11, vf_n_yield'


def drain(phase, cl, r0, r1):
    full = DRAIN_INV % dict(phase=phase, cl=cl, r0=r0, r1=r1)
    parts = [p.strip() for p in full.split(' && ')]
    # one clause per conjunct: a failing obligation then names the fact that broke
    return dict(invariant=[('C03 C14', p, 'drain loop: ' + p) for p in parts], assigns=DRAIN_ASSIGNS)


def LE(c):
    """population of copy `old` (the one readers were redirected away from) in counter c has not grown"""
    return '((!self->m_readingLeft.v) ? (gr%d1 <= __CPROVER_loop_entry(gr%d1)) : (gr%d0 <= __CPROVER_loop_entry(gr%d0)))' % (c, c, c, c)


def Z(c):
    return '((!self->m_readingLeft.v) ? gr%d1 == 0 : gr%d0 == 0)' % (c, c)


FN = {
    r'lr_guarded::modify': dict(
        props='C03 C14 C20', setup=W_SETUP,
        requires=['vf_U == self && g_role == ROLE_WRITER && !self->m_writeMutex.excl_me && self->m_writeMutex.shared_me == 0 && vf_held == 0 && !vf_exc && !vf_assign_threw && !vf_user_threw && '
                  'g_apps == 0 && g_phase == 0 && !g_flipped && self->m_writeMutex.guards == 0 && self->m_left.guard == 0 && self->m_right.guard == 0 && ' + R3],
        ensures=[('C03 C20', '!self->m_writeMutex.excl_me && vf_held == 0', 'writer mutex released on every exit'),
                 ('C03', '!vf_exc ==> (self->m_left.v == g_ver0 + 1 && self->m_right.v == g_ver0 + 1 && !self->m_left.torn && !self->m_right.torn && g_apps == 2)',
                  'normal return: both copies carry exactly one more modification (applied twice, once per copy)'),
                 ('C20', '(vf_exc && !vf_assign_threw && g_apps == 1) ==> (self->m_left.v == g_ver0 && self->m_right.v == g_ver0 && !self->m_left.torn && !self->m_right.torn && !g_flipped)',
                  'a throw from the first application leaves the value unchanged and readers where they were'),
                 ('C20', '(vf_exc && !vf_assign_threw && g_apps == 2) ==> (self->m_left.v == g_ver0 + 1 && self->m_right.v == g_ver0 + 1 && !self->m_left.torn && !self->m_right.torn)',
                  'a throw from the second application completes the modification'),
                 ('C20', 'vf_exc ==> (g_apps == 1 || g_apps == 2)', 'only user code throws'),
                 ('C20', 'vf_user_threw == (vf_exc != 0)', 'the exception is rethrown to the caller after the repair (never swallowed)'),
                 ('', CNT_OK, 'counters')],
        assigns='*self, ' + LR_G,
        loops={
            # order of appearance in the source: first drain (countingLeft ? right : left), second drain (countingLeft ? left : right)
            0: drain(0, '1', LE(0), LE(1)),
            1: drain(0, '0', LE(0), LE(1)),
            2: drain(1, '0', Z(0), LE(1)),
            3: drain(1, '1', LE(0), Z(1)),
        }),
    r'lr_guarded::lock_shared': dict(
        props='C03 C14', setup=R_SETUP, loop_free=True,
        requires=['vf_U == self && g_role == ROLE_READER && LR_INV && g_rstep == 0 && g_decs == 0 && vf_held == 0 && !vf_exc && gq0 < VF_BIG - 3 && gq1 < VF_BIG - 3 && ' + R3],
        ensures=[('C03', 'g_rstep == 3 && LR_INV', 'protocol followed: load countingLeft, register in that counter, then read the side flag'),
                 ('C03', 'vf_ret->p == (g_rs ? &self->m_left : &self->m_right)', 'the handle points to the copy selected by the side flag value just loaded'),
                 ('C03', 'vf_ret->d.m_readingCount == (g_rc ? (void *)&self->m_leftReadCount : (void *)&self->m_rightReadCount)', 'the deleter is bound to the counter that was incremented'),
                 ('C14', 'vf_n_mutex_ops == __CPROVER_old(vf_n_mutex_ops) && vf_n_block == __CPROVER_old(vf_n_block) && vf_n_yield == __CPROVER_old(vf_n_yield) && vf_n_cvwait == __CPROVER_old(vf_n_cvwait) && vf_n_timed == __CPROVER_old(vf_n_timed)',
                  'no mutex, no wait, no yield: a bounded number of own steps whatever writers do'),
                 ('', '!vf_exc && g_decs == 0 && ' + G3, 'no exception, no deregistration')],
        assigns='*vf_ret, *self, ' + LR_G),
    r'lr_guarded::try_lock_shared(_for|_until)?': dict(
        props='C03 C14', setup=R_SETUP, loop_free=True,
        requires=['vf_U == self && g_role == ROLE_READER && LR_INV && g_rstep == 0 && g_decs == 0 && vf_held == 0 && !vf_exc && gq0 < VF_BIG - 3 && gq1 < VF_BIG - 3 && ' + R3],
        ensures=[('C03', 'g_rstep == 3 && LR_INV && vf_ret->p == (g_rs ? &self->m_left : &self->m_right)', 'same as lock_shared (by its contract)'),
                 ('C14', 'vf_n_mutex_ops == __CPROVER_old(vf_n_mutex_ops) && vf_n_block == __CPROVER_old(vf_n_block) && vf_n_yield == __CPROVER_old(vf_n_yield) && vf_n_cvwait == __CPROVER_old(vf_n_cvwait) && vf_n_timed == __CPROVER_old(vf_n_timed)',
                  'always succeeds without blocking'),
                 ('', '!vf_exc', 'no exception')],
        assigns='*vf_ret, *self, ' + LR_G),
    r'lr_guarded::shared_deleter::op_call': dict(
        props='C03 C14', loop_free=True,
        setup='struct lr_guarded_vf_payload_std_mutex vf_lr; vf_U = &vf_lr; g_role = ROLE_READER; self->m_readingCount = vf_nondet_bool() ? (void *)&vf_lr.m_leftReadCount : (void *)&vf_lr.m_rightReadCount;',
        requires=['g_role == ROLE_READER && g_decs == 0 && !vf_exc && g_rstep == 3 && (self->m_readingCount == (void *)&vf_U->m_leftReadCount || self->m_readingCount == (void *)&vf_U->m_rightReadCount) && LR_INV && ' + R3],
        ensures=[('C03', 'ptr != 0 ==> (g_decs == 1 && g_dec_on == self->m_readingCount)', 'a non-null handle deregisters exactly once from the counter it registered in'),
                 ('C03', 'ptr == 0 ==> g_decs == 0', 'a null handle deregisters nothing'),
                 ('C14', 'vf_n_mutex_ops == __CPROVER_old(vf_n_mutex_ops) && vf_n_block == __CPROVER_old(vf_n_block) && vf_n_yield == __CPROVER_old(vf_n_yield)', 'releasing a handle never blocks'),
                 ('', '!vf_exc', 'no exception')],
        assigns='*vf_U, ' + LR_G),
}
