"""Contract schemata shared by the lock-discipline units (Scheme L, DESIGN.md section 4):
handles, guarded, guarded_opt, shared_guarded, shared_guarded_opt, ordered_guarded."""
from _common import GHOST_BOUNDS, GHOST_ASSIGNS, CNT_OK, CNT_R, CNT_G

GHOST = GHOST_BOUNDS + r'''
/* well-formed lock objects: an owning lock names a mutex this thread holds (exclusively: WX,
   in shared mode: WS) */
#define WX(l) (!(l).owns || ((l).m != 0 && (l).m->excl_me))
#define WS(l) (!(l).owns || ((l).m != 0 && (l).m->shared_me > 0))
/* wrapper invariants: the protection map (ghost) ties the wrapped object to the wrapper's own mutex */
#define G(s) ((s)->m_obj.guard == &(s)->m_mutex && (s)->m_mutex.guards == &(s)->m_obj && (s)->m_obj.life == VF_LIVE)
#define GO(s) ((s)->m_obj.life == VF_LIVE && ((s)->enabled ? ((s)->m_obj.guard == &(s)->m_mutex && (s)->m_mutex.guards == &(s)->m_obj) \
                                                            : ((s)->m_obj.guard == 0 && (s)->m_mutex.guards == 0)))
#define FREE(m) (!(m).excl_me && (m).shared_me == 0)
'''

TAGMAP = {'L1': 'C01 C02 C15', 'L2': 'C01 C02 C08 C20', 'L5': 'C01 C02', 'life': 'C15 C20', 'noexcept': 'C20'}

R1, G1, R2, G2, R3, G3 = CNT_R(10), CNT_G(3), CNT_R(100), CNT_G(8), CNT_R(1000), CNT_G(20)

SHARED_M = ('std_shared_mutex', 'std_shared_timed_mutex')


def mutex_of(fm):
    for a in (fm.get('targs') or []) + (fm.get('ftargs') or []):
        if a.startswith('std_') and a.endswith('mutex'):
            return a
    return None


def is_sh(fm):
    return mutex_of(fm) in SHARED_M


def not_sh(fm):
    return not is_sh(fm)


def HSET(n, lock='m_handle_lock'):
    """harness set-up: give the pointer fields of handle *n valid (or null) targets"""
    return ('struct vf_mutex %(n)s_mx; struct vf_payload %(n)s_po; %(n)s_mx.guards = vf_nondet_bool() ? &%(n)s_po : 0; '
            '%(n)s_po.guard = vf_nondet_bool() ? &%(n)s_mx : 0; %(n)s->%(l)s.m = vf_nondet_bool() ? &%(n)s_mx : 0; '
            '%(n)s->data = vf_nondet_bool() ? &%(n)s_po : 0;') % dict(n=n, l=lock)


def MSET(n):
    return 'struct vf_payload %s_po; %s->guards = vf_nondet_bool() ? &%s_po : 0;' % (n, n, n)


GSET = 'self->m_obj.guard = &self->m_mutex; self->m_mutex.guards = &self->m_obj;'
GOSET = ('if (self->enabled) { self->m_obj.guard = &self->m_mutex; self->m_mutex.guards = &self->m_obj; } '
         'else { self->m_obj.guard = 0; self->m_mutex.guards = 0; }')


def handle_entries(hname, props, sh=False, where=None, lock='m_handle_lock'):
    """contracts of lock_handle / shared_lock_handle members; sh: the lock object is a shared_lock"""
    L = 'self->' + lock
    SRC = '$ARG1->' + lock
    Wn = 'WS' if sh else 'WX'
    rel_cnt = 'vf_n_rel == __CPROVER_old(vf_n_rel) + (__CPROVER_old(%s.owns) ? 1 : 0)' % L
    held_cnt = 'vf_held == __CPROVER_old(vf_held) - (__CPROVER_old(%s.owns) ? 1 : 0)' % L
    if sh:
        freed = '(__CPROVER_old(%s.owns) ==> __CPROVER_old(%s.m)->shared_me == 0)' % (L, L)
    else:
        freed = '(__CPROVER_old(%s.owns) ==> !__CPROVER_old(%s.m)->excl_me)' % (L, L)
    WL = '%s(%s)' % (Wn, L)
    WSRC = '%s(%s)' % (Wn, SRC)
    mtx_assign = '%s.owns: *(%s.m)' % (L, L)
    e = {}

    def put(k, v):
        if where is not None:
            v['where'] = where
        e[k] = v

    put(hname + r'::unlock', dict(
        props=props, setup=HSET('self', lock),
        requires=[WL + ' && !vf_exc && (!%s.owns || vf_held >= 1) && ' % L + R1],
        ensures=[('C08', 'self->data == 0 && !%s.owns' % L, 'after unlock() the handle is null and owns nothing'),
                 ('C01 C02 C08', rel_cnt + ' && ' + held_cnt + ' && ' + freed, 'the lock is released exactly once iff it was owned'),
                 ('C08', '!vf_exc && ' + G1, 'no exception')],
        assigns=['*self, ' + GHOST_ASSIGNS, mtx_assign]))
    put(hname + r'::dtor', dict(
        props=props, setup=HSET('self', lock),
        requires=[WL + ' && !vf_exc && (!%s.owns || vf_held >= 1) && ' % L + R1],
        ensures=[('C01 C02 C08', rel_cnt + ' && ' + held_cnt + ' && ' + freed, 'the destructor releases the lock exactly once iff it is owned'),
                 ('C08', '!vf_exc && ' + G1, 'no exception')],
        assigns=['*self, ' + GHOST_ASSIGNS, mtx_assign]))
    put(hname + r'::ctor_move', dict(
        props=props, setup=HSET('$ARG1', lock),
        requires=[WSRC + ' && self != $ARG1 && !vf_exc'],
        ensures=[('C08', 'self->data == __CPROVER_old($ARG1->data) && %s.owns == __CPROVER_old(%s.owns) && %s.m == __CPROVER_old(%s.m)' % (L, SRC, L, SRC),
                  'the new handle takes over pointer and lock'),
                 ('C08', '!%s.owns && %s.m == 0' % (SRC, SRC), 'the moved-from handle owns nothing (it can be destroyed without releasing)'),
                 ('C01 C02 C08', 'vf_n_mutex_ops == __CPROVER_old(vf_n_mutex_ops) && vf_held == __CPROVER_old(vf_held) && vf_n_rel == __CPROVER_old(vf_n_rel)', 'a move performs no mutex operation'),
                 ('', '!vf_exc', 'noexcept')],
        assigns='*self, *$ARG1'))
    put(hname + r'::op_assign_move', dict(
        props=props, setup=HSET('self', lock) + ' ' + HSET('$ARG1', lock),
        requires=[WL + ' && ' + WSRC + ' && self != $ARG1 && !vf_exc && (!%s.owns || vf_held >= 1) && ' % L + R1 +
                  ' && (!(%s.owns && %s.owns) || %s.m != %s.m)' % (L, SRC, L, SRC)],
        ensures=[('C08', 'self->data == __CPROVER_old($ARG1->data) && %s.owns == __CPROVER_old(%s.owns) && %s.m == __CPROVER_old(%s.m)' % (L, SRC, L, SRC),
                  'the target takes over pointer and lock'),
                 ('C08', '!%s.owns && %s.m == 0' % (SRC, SRC), 'the moved-from handle owns nothing'),
                 ('C01 C02 C08', rel_cnt + ' && ' + held_cnt + ' && ' + freed, "the target's previous lock is released exactly once iff it was owned"),
                 ('', '__CPROVER_return_value == self && !vf_exc && ' + G1, 'returns *this')],
        assigns=['*self, *$ARG1, ' + GHOST_ASSIGNS, mtx_assign]))
    put(hname + r'::(op_arrow|op_deref)', dict(
        props=props, requires=['!vf_exc'], no_replace=True,
        ensures=[('C08', '__CPROVER_return_value == self->data && !vf_exc', 'returns the stored pointer, no effects')],
        assigns=''))
    put(hname + r'::op_bool', dict(
        props=props, requires=['!vf_exc'], no_replace=True,
        ensures=[('C08', '__CPROVER_return_value == (self->data != 0) && !vf_exc', 'true iff the handle is non-null')],
        assigns=''))
    # constructors
    put(hname + r'::ctor__pointer_(std_unique_lock_.*|lock_type)', dict(
        props=props, setup='struct vf_mutex lock_mx; lock_mx.guards = 0; lock->m = vf_nondet_bool() ? &lock_mx : 0;',
        requires=['%s(*lock) && &%s != lock && !vf_exc' % (Wn, L)],
        ensures=[('C08', 'self->data == val && %s.owns == __CPROVER_old(lock->owns) && %s.m == __CPROVER_old(lock->m)' % (L, L), 'stores the pointer and takes the lock over'),
                 ('C08', '!lock->owns && lock->m == 0', 'the by-value lock argument is left empty'),
                 ('C01 C02 C08', 'vf_n_mutex_ops == __CPROVER_old(vf_n_mutex_ops) && vf_held == __CPROVER_old(vf_held)', 'no mutex operation'),
                 ('', '!vf_exc', 'does not throw')],
        assigns='*self, *lock'))
    mname = 'smutex' if hname == 'shared_lock_handle' else 'mut'
    if sh:
        holds = '%s->shared_me > 0 && !%s->excl_me' % (mname, mname)
        acq = 'vf_n_acq_shared == __CPROVER_old(vf_n_acq_shared) + 1 && vf_n_acq_excl == __CPROVER_old(vf_n_acq_excl)'
    else:
        holds = '%s->excl_me' % mname
        acq = 'vf_n_acq_excl == __CPROVER_old(vf_n_acq_excl) + 1 && vf_n_acq_shared == __CPROVER_old(vf_n_acq_shared)'
    put(hname + r'::ctor__pointer_std_(shared_)?(timed_)?mutex_ref', dict(
        props=props, setup=MSET(mname),
        requires=['FREE(*%s) && vf_held == 0 && !vf_exc && ' % mname + R1],
        ensures=[('C01 C02 C08', 'self->data == val && %s.owns && %s.m == %s && %s' % (L, L, mname, holds), 'blocking constructor: owns the given mutex in the right mode'),
                 ('C01 C02 C08', 'vf_held == 1 && vf_n_rel == __CPROVER_old(vf_n_rel) && ' + acq, 'exactly one acquisition (shared mode for a shared-capable mutex), nothing released'),
                 ('C08', 'vf_n_block == __CPROVER_old(vf_n_block) + 1 && vf_n_try == __CPROVER_old(vf_n_try) && vf_n_timed == __CPROVER_old(vf_n_timed)', 'a blocking acquisition'),
                 ('', '!vf_exc && %s->guards == __CPROVER_old(%s->guards) && ' % (mname, mname) + G1, 'frame')],
        assigns=['*self, *%s, ' % mname + GHOST_ASSIGNS, '%s->guards != 0: %s->guards->v' % (mname, mname)]))
    return e


def acq_post(ret, obj, mtx, mode, sh=False):
    """postcondition pieces of acquisition functions. mode: 'block' | 'try' | 'timed'; sh: shared acquisition"""
    L = ret + '->m_handle_lock'
    if sh:
        hold = '(%s)->shared_me > 0 && !(%s)->excl_me' % (mtx, mtx)
        acq = 'vf_n_acq_shared == __CPROVER_old(vf_n_acq_shared) + (%s.owns ? 1 : 0) && vf_n_acq_excl == __CPROVER_old(vf_n_acq_excl)' % L
    else:
        hold = '(%s)->excl_me' % mtx
        acq = 'vf_n_acq_excl == __CPROVER_old(vf_n_acq_excl) + (%s.owns ? 1 : 0) && vf_n_acq_shared == __CPROVER_old(vf_n_acq_shared)' % L
    got = '(%s->data == %s && %s.owns && %s.m == %s && %s)' % (ret, obj, L, L, mtx, hold)
    miss = '(%s->data == 0 && !%s.owns)' % (ret, L)
    cnt = {'block': 'vf_n_block == __CPROVER_old(vf_n_block) + 1 && vf_n_try == __CPROVER_old(vf_n_try) && vf_n_timed == __CPROVER_old(vf_n_timed)',
           'try': 'vf_n_block == __CPROVER_old(vf_n_block) && vf_n_try == __CPROVER_old(vf_n_try) + 1 && vf_n_timed == __CPROVER_old(vf_n_timed)',
           'timed': 'vf_n_block == __CPROVER_old(vf_n_block) && vf_n_try == __CPROVER_old(vf_n_try) && vf_n_timed == __CPROVER_old(vf_n_timed) + 1'}[mode]
    held = 'vf_held == __CPROVER_old(vf_held) + (%s.owns ? 1 : 0) && vf_n_rel == __CPROVER_old(vf_n_rel) && %s' % (L, acq)
    return got, miss, cnt, held


def try_handle_entries(prefix, props, sh=False, where=None):
    """try_lock_handle / try_lock_shared_handle families (free functions)"""
    e = {}
    mname = 'smutex' if 'shared' in prefix else 'gmutex'
    for suffix, mode in (('', 'try'), ('_for', 'timed'), ('_until', 'timed')):
        got, miss, cnt, held = acq_post('vf_ret', 'obj', mname, mode, sh)
        v = dict(
            props=props, setup=MSET(mname),
            requires=['!vf_exc && vf_held >= 0 && vf_held < VF_MAX_HELD && ' + R2],
            ensures=[('C01 C02 C08', '(obj != 0 ==> (%s || %s)) && (obj == 0 ==> vf_ret->data == 0)' % (got, miss), 'non-null exactly when the lock was obtained'),
                     ('C01 C02 C08', 'vf_ret->m_handle_lock.m == %s' % mname, 'the lock object names the given mutex'),
                     ('C08', cnt, 'never blocks beyond the given time'),
                     ('C01 C02 C08', held, 'lock balance; shared mode exactly for shared-capable mutexes'),
                     ('', '!vf_exc && %s->guards == __CPROVER_old(%s->guards) && ' % (mname, mname) + G2, 'frame')],
            assigns=['*vf_ret, *%s, ' % mname + GHOST_ASSIGNS, '%s->guards != 0: %s->guards->v' % (mname, mname)])
        if where is not None:
            v['where'] = where
        e[prefix + suffix] = v
    return e


def wrapper_acq_entries(cls, methods, props, inv, setup, sh=False, where=None, opt=False):
    """acquisition members of a wrapper class. methods: list of (member regex, mode, extra where)"""
    e = {}
    DIS = ('(vf_ret->data == &self->m_obj && !vf_ret->m_handle_lock.owns && vf_n_mutex_ops == __CPROVER_old(vf_n_mutex_ops) && '
           'vf_n_block == __CPROVER_old(vf_n_block) && vf_n_timed == __CPROVER_old(vf_n_timed) && vf_n_try == __CPROVER_old(vf_n_try) && vf_held == __CPROVER_old(vf_held))')
    for member, mode, w2 in methods:
        got, miss, cnt, held = acq_post('vf_ret', '&self->m_obj', '&self->m_mutex', mode, sh)
        body = got if mode == 'block' else '(%s || %s)' % (got, miss)
        text = ("a non-null handle to the wrapped object owning this wrapper's own mutex" if mode == 'block' else
                'non-null handle (to the wrapped object, owning this mutex) iff the lock was obtained, else null')
        req = inv + ' && vf_held == 0 && !vf_exc && ' + R3 + (' && FREE(self->m_mutex)' if mode == 'block' else '')
        if opt:
            ens = [('C01 C02 C08', 'self->enabled ==> (%s && %s && %s)' % (body, cnt, held), 'enabled: ' + text),
                   ('C08', '!self->enabled ==> ' + DIS, 'disabled: usable handle immediately, no mutex operation at all'),
                   ('C01 C02 C08', inv + ' && !vf_exc && ' + G3, 'wrapper invariant')]
        else:
            ens = [('C01 C02 C08', body, text),
                   ('C08', cnt, 'one blocking acquisition' if mode == 'block' else 'never blocks beyond the given time'),
                   ('C01 C02 C08', held + ' && ' + inv + ' && !vf_exc && ' + G3, 'lock balance (shared mode exactly for shared-capable mutexes), invariant')]
        v = dict(props=props, setup=setup, requires=[req], ensures=ens,
                 assigns='*vf_ret, self->m_mutex, self->m_obj.v, ' + GHOST_ASSIGNS)
        ws = [w for w in (where, w2) if w is not None]
        if ws:
            v['where'] = (lambda fm, ws=ws: all(w(fm) for w in ws))
        e.setdefault(cls + '::' + member, []).append(v)
    return e


def one_cs(sh=False):
    if sh:
        return ('vf_n_acq_shared == __CPROVER_old(vf_n_acq_shared) + 1 && vf_n_acq_excl == __CPROVER_old(vf_n_acq_excl) && '
                'vf_n_rel == __CPROVER_old(vf_n_rel) + 1 && vf_held == 0 && FREE(self->m_mutex)')
    return ('vf_n_acq_excl == __CPROVER_old(vf_n_acq_excl) + 1 && vf_n_acq_shared == __CPROVER_old(vf_n_acq_shared) && '
            'vf_n_rel == __CPROVER_old(vf_n_rel) + 1 && vf_held == 0 && FREE(self->m_mutex)')


def whole_object_ops(cls, inv, setup, load_sh=None):
    """load / store / operator=.  load_sh: None = load takes the exclusive lock; else list of
    (sh, where) variants for a load that goes through a shared acquisition"""
    e = {}
    variants = [(False, None)] if load_sh is None else load_sh
    for sh, w in variants:
        v = dict(
            props='C01 C02 C15 C20', setup=setup,
            requires=[inv + ' && FREE(self->m_mutex) && vf_held == 0 && !vf_exc && !vf_user_threw && ' + R3],
            ensures=[('C01 C02 C15 C20', one_cs(sh), 'exactly one critical section; the lock is released on normal and on exceptional exit'),
                     ('C20', 'vf_user_threw == (vf_exc != 0)', 'an exception thrown by user code propagates to the caller; nothing else throws'),
                     ('C15', '!vf_exc ==> (vf_ret->v == vf_cs_entry_v && vf_ret->life == VF_LIVE)', 'load returns the value the object had inside the critical section'),
                     ('C15 C20', inv + ' && self->m_obj.v == vf_cs_entry_v', 'the object is not modified by load'),
                     ('', G3, 'counters')],
            assigns='*vf_ret, self->m_mutex, self->m_obj.v, ' + GHOST_ASSIGNS)
        if w is not None:
            v['where'] = w
        if load_sh is not None:
            # load() goes through lock_shared() and a handle: CBMC cannot follow the pointers a replaced
            # contract returns inside the handle, so this one function is verified with its (separately
            # verified) callees inlined instead of replaced by their contracts
            v['inline_callees'] = True
        e.setdefault(cls + r'::load', []).append(v)
    # operator T() const: a load through the exclusive lock (lock_guard) in every wrapper that has one
    e[cls + r'::op_conv\w*'] = dict(
        props='C01 C02 C15 C20', setup=setup, optional=True,
        requires=[inv + ' && FREE(self->m_mutex) && vf_held == 0 && !vf_exc && !vf_user_threw && ' + R3],
        ensures=[('C01 C02 C15 C20', one_cs(False), 'the conversion is exactly one exclusive critical section; the lock is released on normal and on exceptional exit'),
                 ('C20', 'vf_user_threw == (vf_exc != 0)', 'an exception thrown by the copy propagates to the caller; nothing else throws'),
                 ('C15', '!vf_exc ==> (vf_ret->v == vf_cs_entry_v && vf_ret->life == VF_LIVE)', 'the conversion returns the value the object had inside the critical section'),
                 ('C15 C20', inv + ' && self->m_obj.v == vf_cs_entry_v', 'the object is not modified'),
                 ('', G3, 'counters')],
        assigns='*vf_ret, self->m_mutex, self->m_obj.v, ' + GHOST_ASSIGNS)
    for m in ('store', 'op_assign'):
        e[cls + '::' + m] = dict(
            props='C01 C02 C15 C20', setup=setup,
            requires=[inv + ' && FREE(self->m_mutex) && vf_held == 0 && !vf_exc && !vf_user_threw && newObj != &self->m_obj && newObj->life == VF_LIVE && newObj->guard == 0 && ' + R3],
            ensures=[('C01 C02 C15 C20', one_cs(False), 'exactly one exclusive critical section; the lock is released on normal and on exceptional exit'),
                     ('C20', 'vf_user_threw == (vf_exc != 0)', 'an exception thrown by user code propagates to the caller; nothing else throws'),
                     ('C15', '!vf_exc ==> self->m_obj.v == __CPROVER_old(newObj->v)', 'store/assignment sets the value'),
                     ('C20', 'vf_exc ==> (self->m_obj.v == vf_cs_entry_v || self->m_obj.torn || self->m_obj.v == __CPROVER_old(newObj->v))', "a throwing assignment leaves T in whatever state T's own guarantee gives, nothing else"),
                     ('C15 C20', inv, 'wrapper invariant'),
                     ('', G3, 'counters')] + ([('C15', '!vf_exc ==> __CPROVER_return_value == self', 'returns *this')] if m == 'op_assign' else []),
            assigns='self->m_mutex, self->m_obj.v, self->m_obj.torn, newObj->v, newObj->torn, ' + GHOST_ASSIGNS)
    return e
