"""Unit `cow_guarded`: cow_guarded.hpp, verified against the (proved for T = payload) contract
of lr_guarded, which enters here as executable stubs — C04 (snapshots immutable, commits atomic
and never lost), C14 (cow reads never wait for writers), C20 (exceptional exits of lock())."""
from _common import GHOST_BOUNDS, GHOST_ASSIGNS, CNT_R, CNT_G, CNT_OK

C = 'cow_guarded_vf_payload_std_mutex'
LR = 'lr_guarded_std_shared_ptr_vf_payload_std_mutex'
SP = 'std_shared_ptr_vf_payload'
UPL = 'std_unique_ptr_std_shared_ptr_vf_payload_lr_guarded_std_shared_ptr_vf_payload_shared_deleter'
UPH = 'std_unique_ptr_vf_payload_cow_guarded_vf_payload_deleter'
UPT = 'std_unique_ptr_vf_payload'
ACC = 'std_shared_ptr_access_vf_payload_gnu_cxx_S_atomic_false_false'
D = dict(C=C, LR=LR, SP=SP, UPL=UPL, UPH=UPH, UPT=UPT, ACC=ACC)

NAMES = r'''
struct vf_ctrl { int refs; };                      /* control block of a shared_ptr */
#define %(ACC)s %(SP)s
#define %(ACC)s__op_deref__0(s) ((s)->obj)
#define %(SP)s__ctor(s) ((s)->obj = 0, (s)->cb = 0)
#define %(SP)s__ctor__vf_payload_ptr vf_sp_from_raw
#define %(SP)s__ctor_copy vf_sp_copy
#define %(SP)s__op_assign__1 vf_sp_assign
#define %(SP)s__dtor vf_sp_dtor
#define %(UPL)s__ctor__pointer_enable_if_t_is_lvalue_reference_shared_deleter_value_lr_guarded_std_shared_ptr_vf_payload_shared_deleter vf_upl_ctor
#define %(UPL)s__op_bool__0(u) ((u)->p != 0)
#define %(UPL)s__op_deref__0(u) ((u)->p)
#define %(UPL)s__op_arrow__0(u) ((u)->p)
#define %(SP)s_gnu_cxx_S_atomic %(SP)s
#define %(SP)s_gnu_cxx_S_atomic_element_type vf_payload
#define %(SP)s_gnu_cxx_S_atomic__get__0(s) ((s)->obj)
#define %(SP)s_gnu_cxx_S_atomic__use_count__0(s) ((long)((s)->cb ? (s)->cb->refs : 0))
#define %(UPL)s__reset__1 vf_upl_reset
#define %(UPL)s__dtor(u) vf_upl_reset(u, 0)
#define %(UPT)s__ctor__pointer(u, x) ((u)->p = (x))
#define %(UPT)s__release__0 vf_upt_release
#define %(UPT)s__dtor vf_upt_dtor
#define %(UPH)s__ctor__pointer_enable_if_t_is_lvalue_reference_deleter_value_cow_guarded_vf_payload_deleter vf_uph_ctor
#define %(UPH)s__ctor vf_uph_ctor0
#define %(UPH)s__ctor_move vf_uph_ctor_move
#define %(UPH)s__get_deleter__0(u) (&(u)->d)
#define %(UPH)s__reset__1 vf_uph_reset
#define %(UPH)s__dtor(u) vf_uph_reset(u, 0)
''' % D

EXT = {
    SP: ('struct vf_payload *obj; struct vf_ctrl *cb;', []),
    UPT: ('struct vf_payload *p;', []),
    UPL: ('struct %s *p; struct %s_shared_deleter d;' % (SP, LR), [SP, LR + '_shared_deleter']),
    UPH: ('struct vf_payload *p; struct %s_deleter d;' % C, [C + '_deleter']),
}

GHOST = GHOST_BOUNDS + r'''
struct %(C)s *vf_COW;
int g_news, g_deletes;            /* operator new / operator delete calls of the verified call */
struct vf_payload *g_newobj;      /* object allocated by the verified call */
int g_lr_handles;                 /* left-right read handles currently held by the verified call */
int g_lr_reads;                   /* left-right read handles taken */
int g_modify_calls;               /* lr_guarded::modify calls */
int g_functor_apps;               /* applications of the commit functor */
_Bool g_read_before_mutex;        /* a left-right read handle was taken while the writer mutex was not held (only legal for snapshots) */
_Bool g_expect_mutex;             /* the verified function is a writer path: reads of the committed value need the writer mutex */
_Bool g_unlock_before_commit;     /* the writer mutex was released before the commit was installed */
_Bool g_commit_expected;
int g_sp_frees;                   /* control blocks freed (object destroyed by the last owner) */

void *vf_operator_new(unsigned long size)
{
  if (vf_nondet_bool()) { vf_exc = 1; return (void *)0; }     /* std::bad_alloc */
  void *p = __CPROVER_allocate(size, 0);
  __CPROVER_assume(p != (void *)0);
  g_news = g_news + 1;
  g_newobj = (struct vf_payload *)p;
  g_newobj->life = VF_RAW;
  return p;
}
void vf_operator_delete(void *p)
{
  if (p == (void *)0) return;
  __CPROVER_assert(((struct vf_payload *)p)->life != VF_LIVE, "[C04] storage of an object released while the object is still alive");
  g_deletes = g_deletes + 1;
  __CPROVER_deallocate(p);
}
/* ---- shared_ptr<const T> (trusted model) ---- */
#define SP_OK(s) (((s).obj == 0 && (s).cb == 0) || ((s).obj != 0 && (s).cb != 0 && (s).obj->life == VF_LIVE && (s).cb->refs >= 1 && (s).cb->refs < 1000))
void vf_sp_from_raw(struct %(SP)s *s, struct vf_payload *raw)
{
  /* control-block allocation is assumed not to fail (it would end in std::terminate inside a destructor) */
  s->obj = raw;
  s->cb = (struct vf_ctrl *)__CPROVER_allocate(sizeof(struct vf_ctrl), 0);
  s->cb->refs = 1;
}
void vf_sp_copy(struct %(SP)s *s, struct %(SP)s *o) { s->obj = o->obj; s->cb = o->cb; if (s->cb) s->cb->refs = s->cb->refs + 1; }
void vf_payload__dtor(struct vf_payload *self);
void vf_sp_release(struct vf_payload *obj, struct vf_ctrl *cb)
{
  if (cb) {
    __CPROVER_assert(cb->refs >= 1, "[C04] shared_ptr released more often than it was owned");
    cb->refs = cb->refs - 1;
    if (cb->refs == 0) {
      vf_payload__dtor(obj);
      __CPROVER_deallocate(obj);
      __CPROVER_deallocate(cb);
      g_sp_frees = g_sp_frees + 1;
    }
  }
}
void vf_sp_dtor(struct %(SP)s *s) { vf_sp_release(s->obj, s->cb); s->obj = 0; s->cb = 0; }
struct %(SP)s *vf_sp_assign(struct %(SP)s *s, struct %(SP)s *o)
{
  struct vf_payload *oo = s->obj; struct vf_ctrl *oc = s->cb;
  s->obj = o->obj; s->cb = o->cb;
  if (s->cb) s->cb->refs = s->cb->refs + 1;
  vf_sp_release(oo, oc);
  return s;
}
/* ---- unique_ptr<T> ---- */
struct vf_payload *vf_upt_release(struct %(UPT)s *u) { struct vf_payload *r = u->p; u->p = 0; return r; }
void vf_upt_dtor(struct %(UPT)s *u) { if (u->p) { vf_payload__dtor(u->p); vf_operator_delete(u->p); } u->p = 0; }
/* ---- the left-right read handle: unique_ptr<const shared_ptr, lr_guarded::shared_deleter> ---- */
void %(LR)s_shared_deleter__ctor_move(struct %(LR)s_shared_deleter *self, struct %(LR)s_shared_deleter *o);
void %(LR)s_shared_deleter__op_call(struct %(LR)s_shared_deleter *self, struct %(SP)s *p);
void vf_upl_ctor(struct %(UPL)s *u, struct %(SP)s *p, struct %(LR)s_shared_deleter *d) { u->p = p; %(LR)s_shared_deleter__ctor_move(&u->d, d); }
void vf_upl_reset(struct %(UPL)s *u, void *np)
{
  struct %(SP)s *old = u->p;
  u->p = (struct %(SP)s *)np;
  if (old) { __CPROVER_assert(g_lr_handles >= 1, "[C04] a left-right read handle is released twice"); g_lr_handles = g_lr_handles - 1; }
}
/* ---- the write handle's base: unique_ptr<T, cow_guarded::deleter> ---- */
void %(C)s_deleter__ctor_move(struct %(C)s_deleter *self, struct %(C)s_deleter *o);
void %(C)s_deleter__op_call(struct %(C)s_deleter *self, struct vf_payload *p);
void vf_uph_ctor(struct %(UPH)s *u, struct vf_payload *p, struct %(C)s_deleter *d) { u->p = p; %(C)s_deleter__ctor_move(&u->d, d); }
void vf_uph_ctor_move(struct %(UPH)s *u, struct %(UPH)s *o) { u->p = o->p; o->p = 0; %(C)s_deleter__ctor_move(&u->d, &o->d); }
void vf_uph_reset(struct %(UPH)s *u, void *np)
{
  struct vf_payload *old = u->p;
  u->p = (struct vf_payload *)np;
  if (old) %(C)s_deleter__op_call(&u->d, old);
}
/* mutex hooks: the commit must be installed before the writer mutex is released */
void vf_cow_releasing(struct vf_mutex *m)
{
  if (vf_COW != 0 && m == &vf_COW->m_writeMutex && g_commit_expected && g_modify_calls == 0) g_unlock_before_commit = 1;
}
#define VF_HOOK_RELEASING(m, s) vf_cow_releasing(m)
/* the only nesting: cow_guarded::m_writeMutex (outer) -> lr_guarded::m_writeMutex (inner), always in this order */
#define VF_MAX_HELD 2
#define LR_EQ(l) ((l).m_left.obj == (l).m_right.obj && (l).m_left.cb == (l).m_right.cb && (l).m_left.obj != 0 && (l).m_left.cb != 0)
#define COW_OK(s) (LR_EQ((s)->m_data) && (s)->m_data.m_left.obj->life == VF_LIVE && (s)->m_data.m_left.obj->guard == 0 && \
                   (s)->m_data.m_left.cb->refs >= 2 && (s)->m_data.m_left.cb->refs < 1000 && (s)->m_data.m_writeMutex.guards == 0 && (s)->m_writeMutex.guards == 0)
''' % D

# ---- lr_guarded<shared_ptr<const T>> enters as stubs that implement its proved contract (C03)
LR_LOCK_SHARED = r'''
  /* contract of lr_guarded::lock_shared (proved for T = payload in unit lr_guarded): never blocks, returns
     a handle on one of the two copies, both of which hold the committed value outside modify() */
  __CPROVER_assert(!g_expect_mutex || (vf_COW != 0 && vf_COW->m_writeMutex.excl_me),
                   "[C04] a writer reads the committed value before it holds the writer mutex (its copy may miss a commit: lost update)");
  vf_ret->p = vf_nondet_bool() ? &self->m_left : &self->m_right;
  vf_ret->d.m_readingCount = vf_nondet_bool() ? (void *)&self->m_leftReadCount : (void *)&self->m_rightReadCount;
  g_lr_handles = g_lr_handles + 1;
  g_lr_reads = g_lr_reads + 1;
'''
LR_MODIFY = r'''
  /* contract of lr_guarded::modify (proved for T = payload in unit lr_guarded): under its own writer mutex
     the functor is applied exactly once to each copy; no reader observes a half-applied state */
  vf_mutex_lock(&self->m_writeMutex);
  g_modify_calls = g_modify_calls + 1;
  %(C)s_deleter__op_call__lambda0__op_call(func, &self->m_right);
  %(C)s_deleter__op_call__lambda0__op_call(func, &self->m_left);
  g_functor_apps = g_functor_apps + 2;
  vf_mutex_unlock(&self->m_writeMutex);
''' % D

UNIT = dict(
    name='cow_guarded',
    driver='drivers/cow_guarded.cpp',
    names=NAMES, ext_structs=EXT, ghost=GHOST,
    assumptions=[
        'lr_guarded<std::shared_ptr<const T>> enters through executable stubs of its contract (lock_shared: non-blocking handle on a copy holding the committed value; modify: functor applied once to each copy under its writer mutex). That contract is proved in unit lr_guarded for T = payload; carrying it over to T = shared_ptr<const payload> (same template text, only T\'s abstract contract is used) is an assumption',
        'std::shared_ptr<const T> is modelled by {object, control block with strong count}: copies +1, destruction -1, the object is destroyed and freed by the last owner; control-block allocation does not fail',
        'std::unique_ptr<T>, unique_ptr<T, cow_guarded::deleter> (base class of the write handle, inherited constructors) and the left-right read handle are modelled by {pointer, deleter} calling the lowered deleters',
        'operator new may throw std::bad_alloc; T\'s copy constructor may throw (abstract payload)',
        'lock order: a commit takes the left-right writer mutex while holding cow_guarded::m_writeMutex; the order is fixed (outer cow, inner lr), never reversed, so it cannot deadlock',
        'cow_guarded::try_lock / try_lock_for / try_lock_until do not compile when instantiated (handle has no default constructor) and are outside the verified set',
    ])

TAGMAP = {'L1': 'C04', 'L2': 'C04 C20', 'L5': 'C04', 'life': 'C04', 'noexcept': 'C04 C20'}
R3, G3 = CNT_R(1000), CNT_G(30)
CG = ('g_news, g_deletes, g_newobj, g_lr_handles, g_lr_reads, g_modify_calls, g_functor_apps, g_read_before_mutex, g_expect_mutex, g_unlock_before_commit, g_commit_expected, g_sp_frees, ' + GHOST_ASSIGNS)
FRESH = 'g_news == 0 && g_deletes == 0 && g_lr_handles == 0 && g_lr_reads == 0 && g_modify_calls == 0 && g_functor_apps == 0 && !g_unlock_before_commit && g_sp_frees == 0 && g_newobj == 0'
# harness: a committed object held by both copies plus `ext` external snapshot owners
COW_SETUP = ('vf_COW = self; struct vf_payload *co = (struct vf_payload *)__CPROVER_allocate(sizeof(struct vf_payload), 0); struct vf_ctrl *cc = (struct vf_ctrl *)__CPROVER_allocate(sizeof(struct vf_ctrl), 0); '
             'co->life = VF_LIVE; co->guard = 0; co->torn = 0; __CPROVER_assume(cc->refs >= 2 && cc->refs < 100); '
             'self->m_data.m_left.obj = co; self->m_data.m_left.cb = cc; self->m_data.m_right.obj = co; self->m_data.m_right.cb = cc; '
             'self->m_data.m_writeMutex.guards = 0; self->m_writeMutex.guards = 0; self->m_data.m_writeMutex.excl_me = 0; self->m_data.m_writeMutex.shared_me = 0;')
NOBLOCK = ('vf_n_mutex_ops == __CPROVER_old(vf_n_mutex_ops) && vf_n_block == __CPROVER_old(vf_n_block) && vf_n_yield == __CPROVER_old(vf_n_yield) && '
           'vf_n_cvwait == __CPROVER_old(vf_n_cvwait) && vf_n_timed == __CPROVER_old(vf_n_timed)')

FN = {
    # ---- stubs (assumed contract of the left-right layer)
    r'lr_guarded::(lock_shared|try_lock_shared|try_lock_shared_for|try_lock_shared_until)': dict(stub=LR_LOCK_SHARED),
    r'lr_guarded::modify': dict(stub=LR_MODIFY),
    r'lr_guarded::shared_deleter::op_call': dict(stub='  (void)self; (void)ptr;   /* deregistration is accounted for in the read-handle model */'),
    # ---- the commit functor: [newPtr](shared_ptr<const T>& sptr) { sptr = newPtr; }
    r'cow_guarded::deleter::op_call::lambda0::op_call': dict(
        props='C04',
        setup='struct vf_payload a1, a2; struct vf_ctrl c1, c2; a1.life = VF_LIVE; a2.life = VF_LIVE; a1.guard = 0; a2.guard = 0; __CPROVER_assume(c1.refs >= 1 && c1.refs < 100 && c2.refs >= 2 && c2.refs < 100); '
              'vf_c->cap0.obj = &a1; vf_c->cap0.cb = &c1; sptr->obj = &a2; sptr->cb = &c2;',
        requires=['SP_OK(vf_c->cap0) && SP_OK(*sptr) && vf_c->cap0.obj != 0 && sptr->cb != vf_c->cap0.cb && sptr->cb->refs >= 2 && !vf_exc'],
        ensures=[('C04', 'sptr->obj == vf_c->cap0.obj && sptr->cb == vf_c->cap0.cb && vf_c->cap0.cb->refs == __CPROVER_old(vf_c->cap0.cb->refs) + 1 && !vf_exc',
                  'the functor installs exactly the new object in the copy it is applied to (the same on both applications)')],
        assigns=['*sptr, vf_c->cap0.cb->refs, g_sp_frees', 'sptr->cb != 0: sptr->cb->refs']),
    # ---- writer side
    r'cow_guarded::lock': dict(
        props='C04 C20', setup=COW_SETUP + ' g_expect_mutex = 1;', inline_callees=True,
        requires=['vf_COW == self && COW_OK(self) && g_expect_mutex && ' + FRESH + ' && !self->m_writeMutex.excl_me && self->m_writeMutex.shared_me == 0 && vf_held == 0 && !vf_exc && !vf_user_threw && ' + R3],
        ensures=[('C04', '!vf_exc ==> (vf_ret->vf_base.p == g_newobj && g_news == 1 && g_newobj != 0 && g_newobj->life == VF_LIVE && g_newobj->v == self->m_data.m_left.obj->v && g_newobj != self->m_data.m_left.obj)',
                  'the write handle owns a fresh private copy of the latest committed value (no snapshot aliases it)'),
                 ('C04', '!vf_exc ==> (vf_ret->vf_base.d.m_lock.owns && vf_ret->vf_base.d.m_lock.m == &self->m_writeMutex && self->m_writeMutex.excl_me && vf_held == 1 && !vf_ret->vf_base.d.m_cancelled && vf_ret->vf_base.d.m_guarded == self)',
                  'writers are serialised from lock() on: the handle owns the writer mutex (taken before the committed value was read: stub assertion)'),
                 ('C04', 'g_lr_handles == 0 && g_lr_reads == 1 && g_modify_calls == 0 && COW_OK(self)', 'the left-right read handle is released again; nothing is committed by lock()'),
                 ('C20', 'vf_exc ==> (!self->m_writeMutex.excl_me && vf_held == 0 && g_news == g_deletes && g_lr_handles == 0)', 'a throwing allocation or copy releases the writer mutex and the read handle and leaks nothing'),
                 ('C20', 'vf_user_threw ==> vf_exc', 'the exception propagates'),
                 ('', G3, 'counters')],
        assigns=['*vf_ret, self->m_writeMutex, ' + CG]),
    r'cow_guarded::deleter::op_call': dict(
        props='C04', inline_callees=True,
        setup=('struct %(C)s cw; { struct %(C)s *self = &cw; ' % D) + COW_SETUP + ' } '
              'self->m_guarded = &cw; self->m_lock.m = &cw.m_writeMutex; cw.m_writeMutex.excl_me = self->m_lock.owns; cw.m_writeMutex.shared_me = 0; '
              'struct vf_payload *mine = (struct vf_payload *)__CPROVER_allocate(sizeof(struct vf_payload), 0); mine->life = VF_LIVE; mine->guard = 0; ptr = vf_nondet_bool() ? mine : (struct vf_payload *)0; '
              'g_commit_expected = (!self->m_cancelled && ptr != 0);',
        requires=['vf_COW == self->m_guarded && COW_OK(self->m_guarded) && ' + FRESH + ' && self->m_lock.m == &self->m_guarded->m_writeMutex && self->m_guarded->m_writeMutex.excl_me == self->m_lock.owns && '
                  'self->m_guarded->m_writeMutex.shared_me == 0 && vf_held == (self->m_lock.owns ? 1 : 0) && !vf_exc && (ptr == 0 || (ptr->life == VF_LIVE && ptr->guard == 0 && ptr != self->m_guarded->m_data.m_left.obj)) && '
                  'g_commit_expected == (!self->m_cancelled && ptr != 0) && (self->m_cancelled || self->m_lock.owns) && ' + R3],
        ensures=[('C04', '(!__CPROVER_old(self->m_cancelled) && ptr != 0) ==> (g_modify_calls == 1 && g_functor_apps == 2 && self->m_guarded->m_data.m_left.obj == ptr && self->m_guarded->m_data.m_right.obj == ptr && '
                         'LR_EQ(self->m_guarded->m_data) && self->m_guarded->m_data.m_left.cb->refs == 2 && g_deletes == 0)',
                  'releasing a write handle publishes the private object atomically: installed by exactly one left-right modify on both copies, owned only by shared_ptrs from now on'),
                 ('C04', '!g_unlock_before_commit', 'the writer mutex is released only after the commit was installed (no lost update)'),
                 ('C04', '__CPROVER_old(self->m_cancelled) ==> (g_modify_calls == 0 && (ptr == 0 || g_deletes == 1) && self->m_guarded->m_data.m_left.obj == __CPROVER_old(self->m_guarded->m_data.m_left.obj))',
                  'a cancelled handle discards its copy (deleted exactly once) and leaves the committed value untouched'),
                 ('C04', '!self->m_lock.owns && !self->m_guarded->m_writeMutex.excl_me && vf_held == 0 && vf_n_rel <= __CPROVER_old(vf_n_rel) + 2 && !vf_exc', 'the writer mutex is free on return, released at most once by this call'),
                 ('', CNT_OK, 'counters')],
        assigns=['*self, *(self->m_guarded), ' + CG, 'ptr != 0: *ptr', '*(self->m_guarded->m_data.m_left.obj), *(self->m_guarded->m_data.m_left.cb)'],
        frees=['ptr, self->m_guarded->m_data.m_left.obj, self->m_guarded->m_data.m_left.cb']),
    r'cow_guarded::deleter::cancel': dict(
        props='C04',
        setup='struct vf_mutex wm; self->m_lock.m = &wm; wm.excl_me = self->m_lock.owns; wm.guards = 0; vf_COW = 0;',
        requires=['self->m_lock.m != 0 && self->m_lock.m->excl_me == self->m_lock.owns && vf_held == (self->m_lock.owns ? 1 : 0) && !vf_exc && ' + R3],
        ensures=[('C04', 'self->m_cancelled && !self->m_lock.owns && !self->m_lock.m->excl_me && vf_held == 0 && !vf_exc', 'cancel marks the handle cancelled and frees the writer mutex')],
        assigns=['*self, *(self->m_lock.m), ' + CG]),
    r'cow_guarded::handle::cancel': dict(
        props='C04', inline_callees=True,
        setup=('struct %(C)s cw; { struct %(C)s *self = &cw; ' % D) + COW_SETUP + ' } self->vf_base.d.m_guarded = &cw; self->vf_base.d.m_lock.m = &cw.m_writeMutex; self->vf_base.d.m_lock.owns = 1; self->vf_base.d.m_cancelled = 0; '
              'cw.m_writeMutex.excl_me = 1; cw.m_writeMutex.shared_me = 0; vf_held = 1; '
              'struct vf_payload *mine = (struct vf_payload *)__CPROVER_allocate(sizeof(struct vf_payload), 0); mine->life = VF_LIVE; mine->guard = 0; self->vf_base.p = mine;',
        requires=['vf_COW == self->vf_base.d.m_guarded && COW_OK(self->vf_base.d.m_guarded) && ' + FRESH + ' && self->vf_base.d.m_lock.owns && self->vf_base.d.m_lock.m == &self->vf_base.d.m_guarded->m_writeMutex && '
                  'self->vf_base.d.m_guarded->m_writeMutex.excl_me && vf_held == 1 && !self->vf_base.d.m_cancelled && self->vf_base.p != 0 && self->vf_base.p->life == VF_LIVE && self->vf_base.p->guard == 0 && !vf_exc && ' + R3],
        ensures=[('C04', 'self->vf_base.p == 0 && g_deletes == 1 && g_modify_calls == 0', 'cancel() discards the private copy (exactly once) without committing; the handle becomes null'),
                 ('C04', '!self->vf_base.d.m_guarded->m_writeMutex.excl_me && vf_held == 0 && !self->vf_base.d.m_lock.owns && !vf_exc', 'and frees the writer lock'),
                 ('C04', 'self->vf_base.d.m_guarded->m_data.m_left.obj == __CPROVER_old(self->vf_base.d.m_guarded->m_data.m_left.obj) && COW_OK(self->vf_base.d.m_guarded)', 'the committed value is untouched')],
        assigns=['*self, *(self->vf_base.d.m_guarded), ' + CG, '*(self->vf_base.p)'],
        frees=['self->vf_base.p']),
    r'cow_guarded::deleter::ctor_move': dict(
        props='C04',
        setup='struct vf_mutex wm; $ARG1->m_lock.m = &wm; wm.excl_me = $ARG1->m_lock.owns; vf_COW = 0;',
        requires=['self != $ARG1 && !vf_exc'],
        ensures=[('C04', 'self->m_lock.owns == __CPROVER_old($ARG1->m_lock.owns) && self->m_lock.m == __CPROVER_old($ARG1->m_lock.m) && !$ARG1->m_lock.owns && self->m_guarded == $ARG1->m_guarded && '
                         'self->m_cancelled == $ARG1->m_cancelled && vf_n_mutex_ops == __CPROVER_old(vf_n_mutex_ops) && !vf_exc',
                  'moving a write handle transfers the writer lock and the commit duty (no double unlock: the source owns nothing)')],
        assigns='*self, *$ARG1'),
    # ---- reader side
    r'cow_guarded::lock_shared': dict(
        props='C04 C14', setup=COW_SETUP, inline_callees=True, loop_free=True,
        requires=['vf_COW == self && COW_OK(self) && !g_expect_mutex && ' + FRESH + ' && vf_held == 0 && !vf_exc && ' + R3],
        ensures=[('C04', 'vf_ret->obj == self->m_data.m_left.obj && vf_ret->cb == self->m_data.m_left.cb && vf_ret->cb->refs == __CPROVER_old(self->m_data.m_left.cb->refs) + 1 && !vf_exc',
                  'a snapshot is a copy of the committed shared_ptr (strong count +1): it keeps the object alive and no library path can write through it'),
                 ('C04', 'g_lr_handles == 0 && g_lr_reads == 1 && g_modify_calls == 0 && g_news == 0', 'taken under a left-right read handle that is released before returning'),
                 ('C14', NOBLOCK, 'never takes the writer mutex, never waits')],
        assigns=['*vf_ret, self->m_data.m_left.cb->refs, ' + CG]),
    r'cow_guarded::try_lock_shared(_for|_until)?': dict(
        props='C04 C14', setup=COW_SETUP, inline_callees=True, loop_free=True,
        requires=['vf_COW == self && COW_OK(self) && !g_expect_mutex && ' + FRESH + ' && vf_held == 0 && !vf_exc && ' + R3],
        ensures=[('C04', 'vf_ret->obj == self->m_data.m_left.obj && vf_ret->cb == self->m_data.m_left.cb && vf_ret->cb->refs == __CPROVER_old(self->m_data.m_left.cb->refs) + 1 && !vf_exc',
                  'same snapshot semantics as lock_shared'),
                 ('C04', 'g_lr_handles == 0 && g_lr_reads == 1 && g_modify_calls == 0', 'read handle released'),
                 ('C14', NOBLOCK, 'never takes the writer mutex, never waits')],
        assigns=['*vf_ret, self->m_data.m_left.cb->refs, ' + CG]),
}
