"""Unit `deferred`: deferred_guarded.hpp for T = abstract payload, M in {std::shared_timed_mutex,
std::mutex} — C06 (each modification applied once, exclusively, in order, never stranded), the
deferred_guarded part of C02 (readers never overlap a modification), C15 (load) and C20.

Proof scheme (DESIGN.md, "deferred_guarded"): Scheme L for m_obj/m_mutex plus a rely/guarantee
argument over the pair (m_pendingWrites, m_pendingList):
  G1  a submitter publishes its task (push under the list lock) BEFORE it raises the flag;
  G2  a drainer clears the flag BEFORE it takes the queue, takes the WHOLE queue, and only while it
      holds m_mutex exclusively;
  G3  a drainer runs every task it took exactly once, front to back, and destroys it;
  R   other threads do the same (environment step at every atomic access / lock acquisition).
From G1+G2: a task whose submitter has returned is either in the queue with the flag raised, or
already taken by a drainer (hand proof in DESIGN.md); every function below is checked to keep G1-G3."""
from _common import GHOST_BOUNDS, GHOST_ASSIGNS, CNT_R, CNT_G, CNT_OK
from _lockspec import is_sh, not_sh

VT = 'std_vector_std_unique_ptr_task_runner_vf_payload'
UPT = 'std_unique_ptr_task_runner_vf_payload'
UPV = 'std_unique_ptr_void_runner_vf_payload'
UPI = 'std_unique_ptr_type_runner_vf_payload_int'
VIT = 'gnu_cxx_normal_iterator_std_unique_ptr_task_runner_vf_payload_std_vector_std_unique_ptr_task_runner_vf_payload'
PTV = 'std_packaged_task_void_vf_payload'
PTI = 'std_packaged_task_int_vf_payload'
TR = 'task_runner_vf_payload'
VR = 'void_runner_vf_payload'
TY = 'type_runner_vf_payload_int'
D = dict(VT=VT, UPT=UPT, UPV=UPV, UPI=UPI, VIT=VIT, PTV=PTV, PTI=PTI, TR=TR, VR=VR, TY=TY)

NAMES = r'''
/* ---- trusted abstract models of the std types used by deferred_guarded ----
   vector<unique_ptr<task_runner>>: a length plus ONE tracked (focus) element, at an arbitrary
   position; every other element is "some well-formed task" (scratch objects vf_ot_*).  What is
   proved for the focus element holds for every element.  Shared states of promise / packaged_task
   / future live in a table and are named by index (0 = no state). */
struct %(TR)s; struct %(VR)s; struct %(TY)s;
struct %(UPT)s { struct %(TR)s *p; };
struct %(UPV)s { struct %(VR)s *p; };
struct %(UPI)s { struct %(TY)s *p; };
struct %(VT)s { unsigned long size; _Bool has_f; unsigned long fpos; struct %(UPT)s felem; struct %(UPT)s other; };
struct %(VIT)s { struct %(VT)s *v; unsigned long idx; };
struct %(PTV)s { int ss; };
struct %(PTI)s { int ss; };
struct std_promise_void { int ss; };
struct std_promise_int { int ss; };
struct std_future_void { int ss; };
struct std_future_int { int ss; };
struct std_exception_ptr_exception_ptr { char vf_empty; };
/* std::function<void(T&)> holding one of the abstract functors (a refactoring may store tasks in it) */
struct std_function_void_vf_payload { _Bool set; };
#define std_function_void_vf_payload__ctor__vf_fn_void_ref_T__void(f, g) ((f)->set = 1)
#define std_function_void_vf_payload__ctor__vf_fn_void_rref_T__void(f, g) ((f)->set = 1)
#define std_function_void_vf_payload__ctor__vf_fn_void_ref_T_(f, g) ((f)->set = 1)
#define std_function_void_vf_payload__ctor__vf_fn_void_rref_T_(f, g) ((f)->set = 1)
#define std_function_void_vf_payload__ctor_move(f, o) ((f)->set = (o)->set, (o)->set = 0)
#define std_function_void_vf_payload__ctor_copy(f, o) ((f)->set = (o)->set)
#define std_function_void_vf_payload__dtor(f) ((void)0)
#define std_function_void_vf_payload__op_call__1(f, obj) vf_fun_call((f), (obj))
struct std_pair_%(UPT)s_std_future_void { struct %(UPT)s first; struct std_future_void second; };
struct std_pair_%(UPT)s_std_future_int { struct %(UPT)s first; struct std_future_int second; };
#define %(VT)s__ctor(v) ((v)->size = 0, (v)->has_f = 0, (v)->fpos = 0, (v)->felem.p = 0, (v)->other.p = 0)
#define %(VT)s__dtor vf_vt_dtor
#define %(VT)s__begin__0(it, vv) (vf_vt_check(vv), (it)->v = (vv), (it)->idx = 0)
#define %(VT)s__end__0(it, vv) (vf_vt_check(vv), (it)->v = (vv), (it)->idx = (vv)->size)
#define %(VT)s__emplace_back__1(v, u) vf_vt_push((v), (struct %(TR)s **)&(u)->p)
#define %(VT)s__push_back_rv__1(v, u) vf_vt_push((v), &(u)->p)
#define %(VIT)s__op_deref__0 vf_vit_deref
#define %(VIT)s__op_arrow__0 vf_vit_deref
#define %(VIT)s__op_inc__0(it) ((it)->idx = (it)->idx + 1, (it))
#define ext_op_ne__normal_iterator_%(UPT)s_%(VT)s_ref_normal_iterator_%(UPT)s_%(VT)s_ref(a, b) ((a)->idx != (b)->idx)
#define ext_op_eq__normal_iterator_%(UPT)s_%(VT)s_ref_normal_iterator_%(UPT)s_%(VT)s_ref(a, b) ((a)->idx == (b)->idx)
#define std_swap__%(VT)s_std_allocator_%(UPT)s_ref_%(VT)s_std_allocator_%(UPT)s_ref vf_vt_swap
#define %(UPT)s__op_arrow__0(u) ((u)->p)
#define %(UPV)s__op_arrow__0(u) ((u)->p)
#define %(UPI)s__op_arrow__0(u) ((u)->p)
#define %(UPV)s__ctor__pointer(u, q) ((u)->p = (q))
#define %(UPI)s__ctor__pointer(u, q) ((u)->p = (q))
#define %(UPT)s__ctor_move(d, s) ((d)->p = (s)->p, (s)->p = 0)
#define %(UPT)s__ctor__%(UPV)s_std_default_delete_%(VR)s_rref(d, s) ((d)->p = (struct %(TR)s *)(s)->p, (s)->p = 0)
#define %(UPT)s__ctor__%(UPI)s_std_default_delete_%(TY)s_rref(d, s) ((d)->p = (struct %(TR)s *)(s)->p, (s)->p = 0)
#define %(UPT)s__dtor(u) vf_up_dtor((struct %(TR)s **)&(u)->p)
#define %(UPV)s__dtor(u) vf_up_dtor((struct %(TR)s **)&(u)->p)
#define %(UPI)s__dtor(u) vf_up_dtor((struct %(TR)s **)&(u)->p)
#define std_pair_%(UPT)s_std_future_void__ctor__%(UPV)s_rref_std_future_void_rref(r, a, b) ((r)->first.p = (struct %(TR)s *)(a)->p, (a)->p = 0, (r)->second.ss = (b)->ss, (b)->ss = 0)
#define std_pair_%(UPT)s_std_future_int__ctor__%(UPI)s_rref_std_future_int_rref(r, a, b) ((r)->first.p = (struct %(TR)s *)(a)->p, (a)->p = 0, (r)->second.ss = (b)->ss, (b)->ss = 0)
#define std_pair_%(UPT)s_std_future_void__dtor(r) vf_up_dtor(&(r)->first.p)
#define std_pair_%(UPT)s_std_future_int__dtor(r) vf_up_dtor(&(r)->first.p)
#define %(PTV)s__ctor__vf_fn_void_ref(t, f) vf_pt_ctor(&(t)->ss)
#define %(PTV)s__ctor__vf_fn_void_rref(t, f) vf_pt_ctor(&(t)->ss)
#define %(PTI)s__ctor__vf_fn_val_rref(t, f) vf_pt_ctor(&(t)->ss)
#define %(PTI)s__ctor__vf_fn_val_ref(t, f) vf_pt_ctor(&(t)->ss)
#define %(PTV)s__ctor_move(t, o) ((t)->ss = (o)->ss, (o)->ss = 0)
#define %(PTI)s__ctor_move(t, o) ((t)->ss = (o)->ss, (o)->ss = 0)
#define %(PTV)s__dtor(t) vf_ss_owner_dtor(&(t)->ss)
#define %(PTI)s__dtor(t) vf_ss_owner_dtor(&(t)->ss)
#define %(PTV)s__get_future__0(r, t) vf_ss_get_future(&(r)->ss, &(t)->ss)
#define %(PTI)s__get_future__0(r, t) vf_ss_get_future(&(r)->ss, &(t)->ss)
#define %(PTV)s__op_call__1(t, obj) vf_pt_call(&(t)->ss, (obj))
#define %(PTI)s__op_call__1(t, obj) vf_pt_call(&(t)->ss, (obj))
#define std_promise_void__ctor(p) vf_pt_ctor(&(p)->ss)
#define std_promise_int__ctor(p) vf_pt_ctor(&(p)->ss)
#define std_promise_void__dtor(p) vf_ss_owner_dtor(&(p)->ss)
#define std_promise_int__dtor(p) vf_ss_owner_dtor(&(p)->ss)
#define std_promise_void__get_future__0(r, p) vf_ss_get_future(&(r)->ss, &(p)->ss)
#define std_promise_int__get_future__0(r, p) vf_ss_get_future(&(r)->ss, &(p)->ss)
#define std_promise_void__set_value__0(p) vf_ss_set(&(p)->ss, 0)
#define std_promise_int__set_value__1(p, v) vf_ss_set(&(p)->ss, 0)
#define std_promise_void__set_exception__1(p, e) vf_ss_set(&(p)->ss, 1)
#define std_promise_int__set_exception__1(p, e) vf_ss_set(&(p)->ss, 1)
#define std_future_void__ctor(f) ((f)->ss = 0)
#define std_future_int__ctor(f) ((f)->ss = 0)
#define std_future_void__ctor_move(f, o) ((f)->ss = (o)->ss, (o)->ss = 0)
#define std_future_int__ctor_move(f, o) ((f)->ss = (o)->ss, (o)->ss = 0)
#define std_future_void__op_assign__1(f, o) ((f)->ss = (o)->ss, (o)->ss = 0, (f))
#define std_future_int__op_assign__1(f, o) ((f)->ss = (o)->ss, (o)->ss = 0, (f))
#define std_future_void__dtor(f) ((void)0)
#define std_future_int__dtor(f) ((void)0)
#define std_exception_ptr_exception_ptr__dtor(e) ((void)0)
#define ext_current_exception(e) ((void)0)
''' % D

GHOST = GHOST_BOUNDS + r'''
#define VF_MAX_HELD 2              /* m_mutex, then the list mutex or one task mutex (fixed order, never two of the same kind) */
#define G(s) ((s)->m_obj.guard == &(s)->m_mutex && (s)->m_mutex.guards == &(s)->m_obj && (s)->m_obj.life == VF_LIVE)
#define FREE(m) (!(m).excl_me && (m).shared_me == 0)
/* the wrapper under verification, by parts (both instantiations have their own struct type) */
struct vf_mutex *vf_dg_mutex, *vf_dg_qmutex;
struct vf_atomic_bool *vf_dg_flag;
struct %(VT)s *vf_dg_q;
#define DG(s) (vf_dg_mutex == &(s)->m_mutex && vf_dg_qmutex == &(s)->m_pendingList.m_mutex && vf_dg_flag == &(s)->m_pendingWrites && vf_dg_q == &(s)->m_pendingList.m_obj)
/* shared states: 1 = behind the focus task of the queue, 2 = behind any other queued task, 3 = created by the verified call */
struct vf_ss { _Bool ready; _Bool has_exc; int sets; _Bool future_taken; };
struct vf_ss vf_sst[4];
_Bool g_fresh_used;
int g_broken;                      /* promises / tasks destroyed unsatisfied while a future waits for them (broken_promise) */
/* scratch task objects: the focus task and "any other task", one of each dynamic type */
struct %(VR)s vf_ft_v, vf_ot_v;
struct %(TY)s vf_ft_i, vf_ot_i;
/* event clock and what happened when (0 = never) */
int g_ev, g_t_push, g_t_raise, g_t_clear, g_t_swap, g_t_direct, g_t_grant;
int g_pushes;                      /* tasks appended to the pending list by the verified call */
int g_direct;                      /* direct applications of the submitted functor by the verified call */
int g_runs, g_f_runs;              /* queued tasks executed by the verified call: all / the focus task */
int g_f_deleted;                   /* destructions of the focus task */
_Bool g_in_task;
_Bool g_flag_seen_x;               /* m_pendingWrites was read as raised while m_mutex was held exclusively */
_Bool g_quiet;                     /* chosen by the harness: no other thread is active during the call */
int g_try_failed;                  /* try-locks of m_mutex that did not succeed */
int g_obj_blocks;                  /* blocking acquisitions of m_mutex */
unsigned long g_swap_size; _Bool g_swap_has_f; unsigned long g_cs_qsize; _Bool g_cs_qhas_f;
struct %(TR)s *g_pushed;           /* the task object the verified call appended */
#define EV(x) do { g_ev = g_ev + 1; (x) = g_ev; } while (0)
#define GZERO (g_ev == 0 && g_t_push == 0 && g_t_raise == 0 && g_t_clear == 0 && g_t_swap == 0 && g_t_direct == 0 && g_t_grant == 0 && g_pushes == 0 && g_direct == 0 && \
               g_runs == 0 && g_f_runs == 0 && g_f_deleted == 0 && !g_in_task && !g_flag_seen_x && g_try_failed == 0 && g_obj_blocks == 0 && !g_fresh_used && g_broken == 0 && g_pushed == 0)

void vf_task_init(struct %(VR)s *v, struct %(TY)s *t, int ss)
{
  v->vf_base.vf_vtag = VF_TAG_%(VR)s; v->task.m_obj.ss = ss; v->task.m_mutex.excl_me = 0; v->task.m_mutex.shared_me = 0; v->task.m_mutex.guards = 0;
  t->vf_base.vf_vtag = VF_TAG_%(TY)s; t->task.m_obj.ss = ss; t->task.m_mutex.excl_me = 0; t->task.m_mutex.shared_me = 0; t->task.m_mutex.guards = 0;
  vf_sst[ss].ready = 0; vf_sst[ss].has_exc = 0; vf_sst[ss].sets = 0; vf_sst[ss].future_taken = 1;
}
void vf_dg_acquired(struct vf_mutex *m, int shared)
{
  if (m == vf_dg_mutex) {
    /* L4: other holders may have modified the object since we last held the lock */
    if (m->guards != 0) { if (!g_quiet) m->guards->v = vf_nondet_int(); vf_cs_entry_v = m->guards->v; }
    if (shared || !m->excl_me) EV(g_t_grant);
  } else if (m == vf_dg_qmutex) {
    /* R: the pending list is whatever the other submitters / drainers left: any length, and the
       tracked element (if any) is a not-yet-executed task of either dynamic type */
    struct %(VT)s *q = vf_dg_q;
    q->size = vf_nondet_ulong(); q->has_f = vf_nondet_bool(); q->fpos = vf_nondet_ulong();
    __CPROVER_assume(q->size < 5000 && (!q->has_f || q->fpos < q->size));
    vf_task_init(&vf_ft_v, &vf_ft_i, 1);
    if (vf_nondet_bool()) q->felem.p = (struct %(TR)s *)&vf_ft_v; else q->felem.p = (struct %(TR)s *)&vf_ft_i;
    if (!q->has_f) q->felem.p = 0;
    q->other.p = 0;
    g_cs_qsize = q->size; g_cs_qhas_f = q->has_f;
  }
}
#define VF_HOOK_ACQUIRED(m, s) vf_dg_acquired(m, s)
#define VF_HOOK_BLOCKING(m) do { if ((m) == vf_dg_mutex) g_obj_blocks = g_obj_blocks + 1; } while (0)
#define VF_HOOK_TRY_FAILED(m) do { if ((m) == vf_dg_mutex) g_try_failed = g_try_failed + 1; } while (0)
/* R: at every access to the flag other threads may have acted.  Submitters raise it at any time;
   only a drainer holding m_mutex exclusively clears it, so nobody else can while we hold it. */
void vf_dg_env(void *a)
{
  if (a == (void *)vf_dg_flag && !g_quiet) {
    if (vf_dg_mutex->excl_me) { if (vf_nondet_bool()) vf_dg_flag->v = 1; }
    else vf_dg_flag->v = vf_nondet_bool();
  }
}
#define VF_HOOK_ATOMIC_PRE(a) vf_dg_env(a)
#define VF_HOOK_ATOMIC_POST(a) vf_dg_env(a)
#define VF_HOOK_ATOMIC_READ(a, val, mo) do { if ((void *)(a) == (void *)vf_dg_flag && (val) && vf_dg_mutex->excl_me) g_flag_seen_x = 1; } while (0)
#define VF_HOOK_ATOMIC_WRITE(a, o, n, mo, rmw) do { if ((void *)(a) == (void *)vf_dg_flag) { if (n) EV(g_t_raise); else { \
    __CPROVER_assert(vf_dg_mutex->excl_me, "[C06] the pending flag is cleared by a thread that does not hold the object mutex exclusively (G2)"); EV(g_t_clear); } } } while (0)
#define VF_HOOK_FUNCTOR(p, w) do { if (!g_in_task) { g_direct = g_direct + 1; EV(g_t_direct); } } while (0)

void vf_vt_check(struct %(VT)s *v)
{
  if (v == vf_dg_q) __CPROVER_assert(vf_dg_qmutex->excl_me, "[L1] the pending list is accessed without holding its mutex");
}
void vf_operator_delete(void *p);
void %(TR)s__vdtor(struct %(TR)s *p);
void vf_up_dtor(struct %(TR)s **pp)
{
  struct %(TR)s *p = *pp;
  if (p != 0) {
    if (p == (struct %(TR)s *)&vf_ft_v || p == (struct %(TR)s *)&vf_ft_i || (g_pushed != 0 && p == g_pushed)) g_f_deleted = g_f_deleted + 1;
    %(TR)s__vdtor(p);
    vf_operator_delete(p);
  }
  *pp = 0;
}
void vf_vt_dtor(struct %(VT)s *v)
{
  vf_vt_check(v);
  if (v->has_f) vf_up_dtor(&v->felem.p);
  v->has_f = 0; v->size = 0;
}
struct %(UPT)s *vf_vit_deref(struct %(VIT)s *it)
{
  vf_vt_check(it->v);
  __CPROVER_assert(it->idx < it->v->size, "[C06] the end iterator of the task vector is dereferenced");
  if (it->v->has_f && it->idx == it->v->fpos) return &it->v->felem;
  vf_task_init(&vf_ot_v, &vf_ot_i, 2);
  if (vf_nondet_bool()) it->v->other.p = (struct %(TR)s *)&vf_ot_v; else it->v->other.p = (struct %(TR)s *)&vf_ot_i;
  return &it->v->other;
}
/* push_back / emplace_back of an rvalue unique_ptr: appended at the END; may throw bad_alloc (strong guarantee) */
void vf_vt_push(struct %(VT)s *v, struct %(TR)s **src)
{
  vf_vt_check(v);
  if (vf_nondet_bool()) { vf_exc = 1; return; }
  if (v == vf_dg_q) { g_pushes = g_pushes + 1; EV(g_t_push); g_pushed = *src; }
  if (!v->has_f) { v->has_f = 1; v->fpos = v->size; v->felem.p = *src; }
  else v->other.p = *src;                     /* stored, not tracked */
  *src = 0;
  v->size = v->size + 1;
}
void vf_vt_swap(struct %(VT)s *a, struct %(VT)s *b)
{
  vf_vt_check(a); vf_vt_check(b);
  if (a == vf_dg_q || b == vf_dg_q) { EV(g_t_swap); g_swap_size = vf_dg_q->size; g_swap_has_f = vf_dg_q->has_f; }
  struct %(VT)s t = *a; *a = *b; *b = t;
}
/* ---- shared states ---- */
void vf_pt_ctor(int *ss)
{
  if (vf_nondet_bool()) { vf_exc = 1; *ss = 0; return; }       /* std::bad_alloc for the shared state */
  __CPROVER_assert(!g_fresh_used, "[model] more than one shared state created by one call (model limit)");
  g_fresh_used = 1;
  *ss = 3;
  vf_sst[3].ready = 0; vf_sst[3].has_exc = 0; vf_sst[3].sets = 0; vf_sst[3].future_taken = 0;
}
void vf_ss_owner_dtor(int *ss)
{
  if (*ss != 0 && !vf_sst[*ss].ready && vf_sst[*ss].future_taken) g_broken = g_broken + 1;
  *ss = 0;
}
void vf_ss_get_future(int *fut, int *ss)
{
  __CPROVER_assert(*ss >= 1 && *ss <= 3, "[C06] get_future() on a promise / packaged_task without shared state (std::future_error no_state)");
  __CPROVER_assert(!vf_sst[*ss].future_taken, "[C06] get_future() called twice (std::future_error future_already_retrieved)");
  vf_sst[*ss].future_taken = 1;
  *fut = *ss;
}
void vf_ss_set(int *ss, int exc)
{
  __CPROVER_assert(*ss >= 1 && *ss <= 3, "[C06] promise without shared state is satisfied (std::future_error no_state)");
  __CPROVER_assert(!vf_sst[*ss].ready, "[C06] promise satisfied twice (std::future_error promise_already_satisfied)");
  vf_sst[*ss].ready = 1; vf_sst[*ss].has_exc = (exc != 0);
  if (vf_sst[*ss].sets < 100) vf_sst[*ss].sets = vf_sst[*ss].sets + 1;
}
int vf_user_effect(struct vf_payload *p, int write);
/* packaged_task::operator()(T&): runs the stored functor once and stores its result or its
   exception in the shared state; nothing propagates to the caller */
void vf_pt_call(int *ss, struct vf_payload *obj)
{
  __CPROVER_assert(*ss >= 1 && *ss <= 3, "[C06] a moved-from packaged_task is invoked (std::future_error no_state)");
  __CPROVER_assert(!vf_sst[*ss].ready, "[C06] a queued task is executed twice (std::future_error promise_already_satisfied)");
  _Bool ut = vf_user_threw;
  g_in_task = 1;
  (void)vf_user_effect(obj, 1);
  g_in_task = 0;
  vf_sst[*ss].ready = 1; vf_sst[*ss].has_exc = (vf_exc != 0);
  if (vf_sst[*ss].sets < 100) vf_sst[*ss].sets = vf_sst[*ss].sets + 1;
  vf_exc = 0; vf_user_threw = ut;
  if (g_runs < VF_BIG) g_runs = g_runs + 1;
  if (*ss == 1 && g_f_runs < VF_BIG) g_f_runs = g_f_runs + 1;
}
void vf_fun_call(struct std_function_void_vf_payload *f, struct vf_payload *obj)
{
  __CPROVER_assert(f->set, "[C06] an empty std::function is called (std::bad_function_call)");
  (void)vf_user_effect(obj, 1);          /* may throw: nothing captures it */
}
void *vf_operator_new(unsigned long size)
{
  if (vf_nondet_bool()) { vf_exc = 1; return (void *)0; }     /* std::bad_alloc */
  void *p = __CPROVER_allocate(size, 0);
  __CPROVER_assume(p != (void *)0);
  return p;
}
/* storage is not recycled in the model; a destroyed task loses its dynamic type, so any later
   virtual call on it fails the [vcall] check (use after free) */
void vf_operator_delete(void *p) { if (p != (void *)0) ((struct %(TR)s *)p)->vf_vtag = 0; }
''' % D

UNIT = dict(
    name='deferred_guarded',
    driver='drivers/deferred_guarded.cpp',
    names=NAMES, ghost=GHOST,
    assumptions=[
        'std::vector<std::unique_ptr<task_runner>> is an abstract model: a length and one tracked (focus) element at an arbitrary position, all other elements are arbitrary not-yet-executed tasks; push_back/emplace_back append at the end and may throw bad_alloc; swap exchanges whole contents',
        'std::packaged_task / std::promise / std::future share states kept in a table; operator() of a packaged_task runs the functor once and stores result or exception, satisfying a state twice or using a moved-from object is reported as a violation (the std library would throw future_error)',
        'virtual dispatch and virtual destructors are lowered to a dynamic-type tag and an if-chain over the classes of the hierarchy that exist in the translation unit (task_runner, void_runner, type_runner<T,int>)',
        'environment (rely): other threads raise m_pendingWrites at any time, clear it only while holding m_mutex exclusively, and leave the pending list in an arbitrary well-formed state whenever its mutex is free; with the ghost flag g_quiet the environment is switched off to state the no-stranding facts',
        'meta-theorem (DESIGN.md, deferred_guarded): G1-G3 above for every thread imply that no accepted task is stranded and that tasks are applied in submission order; the per-function obligations are proved, the composition is a hand proof',
        'instantiations verified: T = abstract payload, M in {std::shared_timed_mutex, std::mutex}, functors = abstract void- and int-returning callables that may throw at any call',
        'the abstract value a future carries is not tracked (only ready / has-exception / number of times satisfied)',
    ])

TAGMAP = {'L1': 'C02 C06', 'L2': 'C02 C06 C20', 'L5': 'C06', 'vcall': 'C06', 'life': 'C15 C20', 'noexcept': 'C20', 'model': 'C06'}
R3, G3 = CNT_R(1000), CNT_G(60)
DGH = ('g_ev, g_t_push, g_t_raise, g_t_clear, g_t_swap, g_t_direct, g_t_grant, g_pushes, g_direct, g_runs, g_f_runs, g_f_deleted, g_in_task, g_flag_seen_x, g_try_failed, g_obj_blocks, '
       'g_fresh_used, g_broken, g_swap_size, g_swap_has_f, g_cs_qsize, g_cs_qhas_f, g_pushed, vf_sst, vf_ft_v, vf_ft_i, vf_ot_v, vf_ot_i, ')
SG = DGH + GHOST_ASSIGNS
SETUP = ('self->m_obj.guard = &self->m_mutex; self->m_mutex.guards = &self->m_obj; self->m_pendingList.m_mutex.guards = 0; '
         'vf_dg_mutex = &self->m_mutex; vf_dg_qmutex = &self->m_pendingList.m_mutex; vf_dg_flag = &self->m_pendingWrites; vf_dg_q = &self->m_pendingList.m_obj; '
         'self->m_pendingList.m_obj.felem.p = 0; self->m_pendingList.m_obj.other.p = 0; g_pushed = 0;')
Q = 'self->m_pendingList.m_obj'
QM = 'self->m_pendingList.m_mutex'
EVB = 'g_ev >= 0 && g_ev <= 50 && g_t_push >= 0 && g_t_raise >= 0 && g_t_direct >= 0 && g_t_grant >= 0 && g_t_push <= g_ev && g_t_raise <= g_ev && g_t_clear <= g_ev && g_t_swap <= g_ev && g_t_direct <= g_ev && g_t_grant <= g_ev && g_t_swap >= 0 && g_t_clear >= 0'
PRE0 = 'G(self) && DG(self) && FREE(' + QM + ') && !vf_exc && !vf_user_threw && GZERO && ' + R3
# what a drain guarantees (G2, G3)
DRAINED = ('(g_t_swap > 0 ==> (g_t_clear > 0 && g_t_clear < g_t_swap && g_swap_size < 5000 && g_runs >= 0 && (unsigned long)g_runs == g_swap_size && '
           '(g_swap_has_f ==> (g_f_runs == 1 && vf_sst[1].ready && vf_sst[1].sets == 1 && g_f_deleted == 1)) && (!g_swap_has_f ==> (g_f_runs == 0 && g_f_deleted == 0))))')
NODRAIN = '(g_t_swap == 0 ==> (g_runs == 0 && g_f_runs == 0 && g_f_deleted == 0))'

FN = {}

LOOP_INV = ('vf_begin0.v == &localPending && vf_end0.v == &localPending && vf_range0 == &localPending && vf_end0.idx == localPending.size && vf_begin0.idx <= localPending.size && '
            'localPending.size == g_swap_size && localPending.has_f == g_swap_has_f && localPending.size < 5000 && (!localPending.has_f || localPending.fpos < localPending.size) && '
            '(!localPending.has_f || localPending.felem.p == (struct %(TR)s *)&vf_ft_v || localPending.felem.p == (struct %(TR)s *)&vf_ft_i) && '
            'vf_ft_v.vf_base.vf_vtag == VF_TAG_%(VR)s && vf_ft_i.vf_base.vf_vtag == VF_TAG_%(TY)s && vf_ft_v.task.m_obj.ss == 1 && vf_ft_i.task.m_obj.ss == 1 && '
            'FREE(vf_ft_v.task.m_mutex) && FREE(vf_ft_i.task.m_mutex) && '
            'G(self) && DG(self) && self->m_mutex.excl_me && FREE(' + QM + ') && vf_held == 1 && !vf_exc && !g_in_task && '
            'g_runs >= 0 && (unsigned long)g_runs == vf_begin0.idx && g_f_runs == ((localPending.has_f && localPending.fpos < vf_begin0.idx) ? 1 : 0) && '
            '(vf_sst[1].ready ? 1 : 0) == g_f_runs && vf_sst[1].sets == g_f_runs && g_f_deleted == 0 && vf_user_threw == __CPROVER_loop_entry(vf_user_threw) && ' + CNT_OK) % D
for sh, w in ((True, is_sh), (False, not_sh)):
    FN.setdefault(r'deferred_guarded::do_pending_writes_internal', []).append(dict(
        props='C02 C06 C20', where=w, setup=SETUP,
        requires=[('C02 C06', 'self->m_mutex.excl_me', 'G2: the drain is only entered by a thread that holds the object mutex EXCLUSIVELY (a shared hold would run modifications next to readers)'),
                  'G(self) && DG(self) && vf_held == 1 && FREE(' + QM + ') && !vf_exc && g_t_clear == 0 && g_t_swap == 0 && g_runs == 0 && g_f_runs == 0 && '
                  'g_f_deleted == 0 && !g_in_task && !g_flag_seen_x && g_ev <= 20 && ' + EVB + ' && ' + R3],
        ensures=[('C06', 'g_flag_seen_x ==> g_t_swap > 0', 'a raised flag seen under the exclusive lock leads to a drain'),
                 ('C06', '(g_quiet && __CPROVER_old(self->m_pendingWrites.v)) ==> g_t_swap > 0', 'no stranding: called with the flag raised (and no interference), it drains'),
                 ('C06', DRAINED, 'G2+G3: the flag is cleared before the queue is taken; every task taken is executed exactly once, front to back, and destroyed'),
                 ('C06', NODRAIN, 'without taking the queue no task is executed'),
                 ('C06', '(g_t_swap > 0 ==> ' + Q + '.size == 0 && !' + Q + '.has_f)', 'the whole queue is taken (nothing is put back)'),
                 ('C02 C06 C20', 'self->m_mutex.excl_me && vf_held == 1 && FREE(' + QM + ') && !vf_exc && G(self)', 'the caller still holds the object mutex exclusively, the list mutex is free again, nothing is thrown (task exceptions go to their futures)'),
                 ('', EVB + ' && g_ev >= __CPROVER_old(g_ev) && !g_in_task', 'event clock'),
                 ('', 'g_t_push == __CPROVER_old(g_t_push) && g_t_raise == __CPROVER_old(g_t_raise) && g_t_direct == __CPROVER_old(g_t_direct) && '
                      'g_t_grant == __CPROVER_old(g_t_grant) && g_pushes == __CPROVER_old(g_pushes) && g_direct == __CPROVER_old(g_direct) && g_try_failed == __CPROVER_old(g_try_failed) && '
                      'vf_user_threw == __CPROVER_old(vf_user_threw) && g_fresh_used == __CPROVER_old(g_fresh_used) && g_broken == __CPROVER_old(g_broken) && g_obj_blocks == __CPROVER_old(g_obj_blocks) && ' + CNT_OK, 'frame of the ghost state')],
        assigns=['self->m_obj.v, self->m_obj.torn, self->m_pendingWrites, ' + Q + ', ' + QM + ', ' + SG],
        loops={0: dict(invariant=[('C06', LOOP_INV, 'drain loop: tasks 0..i-1 have been executed exactly once each, in this order; the focus task exactly when its position has been passed')],
                       assigns=('vf_begin0.idx, localPending.other, self->m_obj.v, self->m_obj.torn, vf_sst, vf_ot_v, vf_ot_i, vf_ft_v.task.m_mutex, vf_ft_i.task.m_mutex, '
                                'g_runs, g_f_runs, g_in_task, ' + GHOST_ASSIGNS),
                       decreases='localPending.size - vf_begin0.idx')}))

    FN.setdefault(r'deferred_guarded::do_pending_writes', []).append(dict(
        props='C02 C06 C08 C20', where=w, setup=SETUP,
        requires=[PRE0 + ' && FREE(self->m_mutex) && vf_held == 0'],
        ensures=[('C06', DRAINED + ' && ' + NODRAIN, 'a drain attempt either leaves the queue alone or drains it completely (G2, G3)'),
                 ('C06', '(g_quiet && __CPROVER_old(self->m_pendingWrites.v) && g_try_failed == 0) ==> g_t_swap > 0',
                  'no stranding: with the flag raised and the object mutex available, the pending modifications are applied'),
                 ('C02 C06 C20', 'vf_held == 0 && FREE(self->m_mutex) && FREE(' + QM + ') && !vf_exc && G(self)', 'all locks released, nothing thrown'),
                 ('C06 C08', 'g_obj_blocks == 0 && g_direct == 0 && g_pushes == 0', 'the drain attempt never blocks on the object mutex (only try_lock): the try forms of the readers stay non-blocking'),
                 ('', EVB + ' && g_t_grant == 0 && g_t_raise == 0 && g_t_push == 0 && !g_in_task && g_try_failed >= 0 && g_try_failed <= 1 && !vf_user_threw && !g_fresh_used && g_broken == 0 && ' + CNT_OK, 'ghost frame')],
        assigns=['self->m_obj.v, self->m_obj.torn, self->m_pendingWrites, self->m_mutex, ' + Q + ', ' + QM + ', ' + SG]))

    # ---- readers -------------------------------------------------------------------------------
    hold = '(self->m_mutex.shared_me > 0 && !self->m_mutex.excl_me)' if sh else 'self->m_mutex.excl_me'
    got = '(vf_ret->data == &self->m_obj && vf_ret->m_handle_lock.owns && vf_ret->m_handle_lock.m == &self->m_mutex && %s && vf_held == 1)' % hold
    miss = '(vf_ret->data == 0 && !vf_ret->m_handle_lock.owns && FREE(self->m_mutex) && vf_held == 0)'
    for member, blocking in (('lock_shared', True), ('try_lock_shared', False), ('try_lock_shared_for', False), ('try_lock_shared_until', False)):
        FN.setdefault(r'deferred_guarded::' + member, []).append(dict(
            props='C02 C06 C08', where=w, setup=SETUP, optional=(member in ('try_lock_shared_for', 'try_lock_shared_until')),
            requires=[PRE0 + ' && FREE(self->m_mutex) && vf_held == 0'],
            ensures=[('C02 C08', got if blocking else '(%s || %s)' % (got, miss),
                      'the handle names the wrapped object and owns the wrapper\'s own mutex (shared mode for a shared-capable mutex)' if blocking else
                      'non-null handle owning this mutex iff the lock was obtained, else a null handle and no lock'),
                     ('C06', DRAINED + ' && ' + NODRAIN, 'the drain attempt before the acquisition keeps G2, G3'),
                     ('C06', '(g_quiet && __CPROVER_old(self->m_pendingWrites.v) && g_try_failed == 0) ==> (g_t_swap > 0 && (g_t_grant > 0 ==> g_t_grant > g_t_swap))',
                      'no stranding: accepted modifications are applied before read access is granted'),
                     ('C02 C06 C08', 'g_direct == 0 && g_pushes == 0 && FREE(' + QM + ') && !vf_exc && G(self) && g_obj_blocks == %d && ' % (1 if blocking else 0) + CNT_OK, 'no other effect; nothing thrown; only lock_shared() may block on the object mutex, exactly once')],
            assigns=['*vf_ret, self->m_obj.v, self->m_obj.torn, self->m_pendingWrites, self->m_mutex, ' + Q + ', ' + QM + ', ' + SG]))

    FN.setdefault(r'deferred_guarded::load', []).append(dict(
        props='C02 C15 C20', where=w, setup=SETUP, inline_callees=True,
        requires=[PRE0 + ' && FREE(self->m_mutex) && vf_held == 0'],
        ensures=[('C02 C15 C20', 'vf_held == 0 && FREE(self->m_mutex) && FREE(' + QM + ')', 'every lock is released on normal and on exceptional exit'),
                 ('C20', 'vf_user_threw == (vf_exc != 0)', 'an exception of the copy constructor propagates; task exceptions do not'),
                 ('C15', '!vf_exc ==> (vf_ret->v == vf_cs_entry_v && vf_ret->life == VF_LIVE)', 'load returns the value the object had inside the shared critical section'),
                 ('C15 C20', 'G(self) && self->m_obj.v == vf_cs_entry_v', 'the copy does not modify the object'),
                 ('C06', DRAINED + ' && ' + NODRAIN, 'G2, G3')],
        assigns=['*vf_ret, self->m_obj.v, self->m_obj.torn, self->m_pendingWrites, self->m_mutex, ' + Q + ', ' + QM + ', ' + SG]))

    # ---- submitters ----------------------------------------------------------------------------
    ONCE = '(!vf_exc ==> g_direct + g_pushes == 1) && g_direct + g_pushes <= 1'
    DIRECT = ('(g_direct == 1 ==> (g_try_failed == 0 && g_pushes == 0 && g_t_raise == 0 && (g_t_swap > 0 ==> g_t_swap < g_t_direct)))')
    QUEUED = ('((!vf_exc && g_pushes == 1) ==> (g_try_failed == 1 && g_direct == 0 && g_t_swap == 0 && g_runs == 0 && g_t_push > 0 && g_t_raise > g_t_push && ' + Q + '.size == g_cs_qsize + 1 && '
              '(!g_cs_qhas_f ==> (' + Q + '.has_f && ' + Q + '.fpos == g_cs_qsize && ' + Q + '.felem.p == g_pushed && g_pushed != 0 && g_f_deleted == 0))))')
    UNLOCK = 'vf_held == 0 && FREE(self->m_mutex) && FREE(' + QM + ') && G(self)'
    FN.setdefault(r'deferred_guarded::modify_detach', []).append(dict(
        props='C02 C06 C20', where=w, setup=SETUP,
        requires=[PRE0 + ' && FREE(self->m_mutex) && vf_held == 0'],
        ensures=[('C06', ONCE, 'the functor is applied directly or queued, exactly once, never both'),
                 ('C06', DIRECT, 'direct path: only with the exclusive lock (model assertion L1), after every pending modification taken by the drain'),
                 ('C06', QUEUED, 'queued path (G1): the task is appended at the END of the list under the list lock, and the flag is raised AFTER that'),
                 ('C06', DRAINED + ' && ' + NODRAIN, 'G2, G3 for the drain on the direct path'),
                 ('C06', '(g_quiet && g_direct == 1 && __CPROVER_old(self->m_pendingWrites.v)) ==> g_t_swap > 0', 'no stranding / order: earlier accepted modifications are applied before this one'),
                 ('C20', 'vf_user_threw == (g_direct == 1 && vf_exc != 0) && (vf_user_threw ==> vf_exc)', 'an exception of the directly applied functor propagates to the caller'),
                 ('C02 C06 C20', UNLOCK, 'every lock is released on normal and on exceptional exit'),
                 ('C06', 'g_obj_blocks == 0 && ' + CNT_OK, 'a submitter never blocks on the object mutex')],
        assigns=['self->m_obj.v, self->m_obj.torn, self->m_pendingWrites, self->m_mutex, ' + Q + ', ' + QM + ', ' + SG]))
    FN.setdefault(r'deferred_guarded::modify_async', []).append(dict(
        props='C02 C06 C20', where=w, setup=SETUP,
        requires=[PRE0 + ' && FREE(self->m_mutex) && vf_held == 0'],
        ensures=[('C06', ONCE, 'the functor is applied directly or queued, exactly once, never both'),
                 ('C06', DIRECT, 'direct path: only with the exclusive lock, after every pending modification taken by the drain'),
                 ('C06', QUEUED, 'queued path (G1): appended at the END of the list under the list lock, flag raised AFTER that'),
                 ('C06', DRAINED + ' && ' + NODRAIN, 'G2, G3 for the drain on the direct path'),
                 ('C06', '(g_quiet && g_direct == 1 && __CPROVER_old(self->m_pendingWrites.v)) ==> g_t_swap > 0', 'no stranding / order: earlier accepted modifications are applied before this one'),
                 ('C06 C20', '(!vf_exc && g_direct == 1) ==> (vf_ret->ss == 3 && vf_sst[3].ready && vf_sst[3].sets == 1 && vf_sst[3].has_exc == vf_user_threw)',
                  'direct path: the returned future already holds the result, or the exception the functor threw'),
                 ('C06', '(!vf_exc && g_pushes == 1) ==> (vf_ret->ss == 3 && !vf_sst[3].ready && vf_sst[3].sets == 0 && vf_sst[3].future_taken)',
                  'queued path: the returned future shares its state with the queued task, which has not run yet'),
                 ('C06', '(!vf_exc && g_pushes == 1 && !g_cs_qhas_f) ==> g_pushed != 0', 'the queued task object is owned by the list'),
                 ('C20', '(vf_exc ==> !vf_user_threw) && (!vf_exc ==> g_broken == 0)', 'user exceptions are captured in the future, never thrown at the submitter; no promise behind a returned future is abandoned'),
                 ('C02 C06 C20', UNLOCK, 'every lock is released on normal and on exceptional exit'),
                 ('C06', 'g_obj_blocks == 0 && ' + CNT_OK, 'a submitter never blocks on the object mutex')],
        assigns=['*vf_ret, self->m_obj.v, self->m_obj.torn, self->m_pendingWrites, self->m_mutex, ' + Q + ', ' + QM + ', ' + SG]))

# ---- helpers -----------------------------------------------------------------------------------
for rn, cls in (('void_runner', VR), ('type_runner', TY)):
    FN[rn + r'::run_task'] = dict(
        props='C06 C20', no_replace=True,
        setup='self->task.m_mutex.guards = 0; self->task.m_obj.ss = 1; vf_sst[1].ready = 0; vf_sst[1].sets = 0; struct vf_mutex om; om.excl_me = 1; om.shared_me = 0; om.guards = obj; obj->guard = &om; vf_dg_mutex = &om; vf_dg_qmutex = 0; vf_dg_q = 0; vf_dg_flag = 0;',
        requires=['FREE(self->task.m_mutex) && vf_held == 1 && obj->life == VF_LIVE && !vf_exc && !vf_user_threw && g_runs == 0 && g_f_runs == 0 && !g_in_task && ' + R3],
        ensures=[('C06', 'g_runs == 1 && g_f_runs == 1 && vf_sst[1].ready && vf_sst[1].sets == 1', 'the packaged task is invoked exactly once'),
                 ('C20', '!vf_exc && !vf_user_threw && FREE(self->task.m_mutex) && vf_held == 1', 'an exception of the functor is stored in the shared state; the task lock is released'),
                 ('', G3, 'counters')],
        assigns='*self, *obj, ' + SG)
FN[r'call_returning_future'] = dict(
    props='C06 C20', no_replace=True,
    setup='struct vf_mutex om; om.excl_me = 1; om.shared_me = 0; om.guards = data; data->guard = &om; vf_dg_mutex = &om; vf_dg_qmutex = 0; vf_dg_q = 0; vf_dg_flag = 0;',
    requires=['data->life == VF_LIVE && !vf_exc && !vf_user_threw && GZERO && ' + R3],
    ensures=[('C06', '(!vf_exc ==> g_direct == 1) && g_direct <= 1', 'the functor is applied exactly once'),
             ('C06 C20', '!vf_exc ==> (vf_ret->ss == 3 && vf_sst[3].ready && vf_sst[3].sets == 1 && vf_sst[3].has_exc == vf_user_threw && vf_sst[3].future_taken)',
              'the future holds the result, or the exception the functor threw'),
             ('C20', '(vf_exc ==> !vf_user_threw) && g_broken == 0', 'a user exception is captured, not propagated')],
    assigns='*vf_ret, *data, ' + SG)
FN[r'package_task_void'] = dict(
    props='C06', no_replace=True, setup='vf_dg_mutex = 0; vf_dg_qmutex = 0; vf_dg_q = 0; vf_dg_flag = 0;',
    requires=['!vf_exc && !vf_user_threw && vf_held >= 0 && vf_held <= 1 && GZERO && ' + R3],
    ensures=[('C06', '!vf_exc ==> (vf_ret->first.p != 0 && vf_ret->second.ss == 3 && !vf_sst[3].ready && vf_sst[3].sets == 0 && vf_sst[3].future_taken && g_direct == 0)',
              'the task and its future share one not-yet-satisfied state; the functor is not run'),
             ('C06', 'g_broken == 0 && !vf_user_threw && vf_held == __CPROVER_old(vf_held)', 'nothing is abandoned; the task lock taken for get_future is released')],
    assigns='*vf_ret, ' + SG)
