"""Unit `delayed_destructor`: DelayedDestructor.hpp (locked and single-thread class) for X = abstract
object — C16 (destroyed late, once, never under the internal lock; callback once before each reaped
object; nothing lost or duplicated) and the DelayedDestructor part of C20."""
from _common import GHOST_BOUNDS, GHOST_ASSIGNS, CNT_R, CNT_G, CNT_OK

SP = 'std_shared_ptr_vf_obj'
VS = 'std_vector_std_shared_ptr_vf_obj'
VSIT = 'gnu_cxx_normal_iterator_std_shared_ptr_vf_obj_std_vector_std_shared_ptr_vf_obj'
VV = 'std_vector_void'
VVIT = 'gnu_cxx_normal_iterator_void_std_vector_void'
FUN = 'std_function_void_std_shared_ptr_vf_obj'
DDL = 'DelayedDestructor_vf_obj'
DDS = 'DelayedDestructorSingleThread_vf_obj'
D = dict(SP=SP, VS=VS, VSIT=VSIT, VV=VV, VVIT=VVIT, FUN=FUN, DDL=DDL, DDS=DDS)

NAMES = r'''
/* ---- trusted abstract models of the std types used by DelayedDestructor ----
   shared_ptr<X>: objects are identities; ONE object (vf_fobj, the focus) is tracked with its exact
   reference count, split into references held by the code under verification (g_mine) and by other
   owners (g_ext); every other object is "some live object with an arbitrary count".  vector<shared_ptr<X>>
   is a length plus the position of the focus object (if present).  What is proved for the focus
   object holds for every object. */
struct vf_sobj { int refs; int life; };
struct %(SP)s { struct vf_sobj *p; };
#define %(SP)s_gnu_cxx_S_atomic %(SP)s
#define %(SP)s_gnu_cxx_S_atomic_element_type vf_sobj
struct %(VS)s { unsigned long size; _Bool has_f; unsigned long fpos; struct %(SP)s felem; struct %(SP)s other; };
struct %(VSIT)s { struct %(VS)s *v; unsigned long idx; };
struct %(VV)s { unsigned long size; _Bool has_f; unsigned long fpos; };
struct %(VVIT)s { struct %(VV)s *v; unsigned long idx; };
struct %(FUN)s { _Bool set; };
#define %(SP)s__ctor_copy vf_sp_copy
#define %(SP)s__ctor_move(d, s) ((d)->p = (s)->p, (s)->p = 0)
#define %(SP)s__dtor vf_sp_release
#define %(SP)s_gnu_cxx_S_atomic__use_count__0 vf_sp_use_count
#define %(SP)s_gnu_cxx_S_atomic__get__0(s) ((s)->p)
#define %(VS)s__ctor(v) ((v)->size = 0, (v)->has_f = 0, (v)->fpos = 0, (v)->felem.p = 0, (v)->other.p = 0)
#define %(VS)s__dtor vf_vs_clear
#define %(VS)s__clear__0 vf_vs_clear
#define %(VS)s__size__0(v) (vf_vs_check(v), (v)->size)
#define %(VS)s__empty__0(v) (vf_vs_check(v), (v)->size == 0)
#define %(VS)s__begin__0(it, vv) (vf_vs_check(vv), (it)->v = (vv), (it)->idx = 0)
#define %(VS)s__end__0(it, vv) (vf_vs_check(vv), (it)->v = (vv), (it)->idx = (vv)->size)
#define %(VS)s__push_back__1(v, e) vf_vs_push((v), (e), 0)
#define %(VS)s__push_back_rv__1(v, e) vf_vs_push((v), (e), 1)
#define %(VS)s__erase__2 vf_vs_erase
/* std::move_iterator over the vector iterator and the range constructor vector(move_it, move_it) */
struct std_move_iterator_%(VSIT)s { struct %(VSIT)s it; };
#define ext_make_move_iterator__%(VSIT)s(r, a) ((r)->it = *(a))
#define %(VS)s__ctor__std_move_iterator_%(VSIT)s_std_move_iterator_%(VSIT)s_allocator_type_ref(d, a, b, al) vf_vs_from_moved((d), &(a)->it, &(b)->it)
#define %(VSIT)s__op_deref__0 vf_vsit_deref
#define %(VSIT)s__op_arrow__0 vf_vsit_deref
#define %(VSIT)s__op_inc__0(it) ((it)->idx = (it)->idx + 1, (it))
#define %(VSIT)s__ctor__normal_iterator_%(SP)s_%(VS)s_ref(d, s) (*(d) = *(s))
#define ext_op_ne__normal_iterator_%(SP)s_%(VS)s_ref_normal_iterator_%(SP)s_%(VS)s_ref(a, b) ((a)->idx != (b)->idx)
#define ext_op_eq__normal_iterator_%(SP)s_%(VS)s_ref_normal_iterator_%(SP)s_%(VS)s_ref(a, b) ((a)->idx == (b)->idx)
#define %(VV)s__ctor(v) ((v)->size = 0, (v)->has_f = 0, (v)->fpos = 0)
#define %(VV)s__dtor(v) ((void)0)
#define %(VV)s__empty__0(v) ((v)->size == 0)
#define %(VV)s__begin__0(it, vv) ((it)->v = (vv), (it)->idx = 0)
#define %(VV)s__end__0(it, vv) ((it)->v = (vv), (it)->idx = (vv)->size)
#define %(VV)s__emplace_back__1 vf_vv_push
#define ext_op_ne__normal_iterator_void_%(VV)s_ref_normal_iterator_void_%(VV)s_ref(a, b) ((a)->idx != (b)->idx)
#define ext_op_eq__normal_iterator_void_%(VV)s_ref_normal_iterator_void_%(VV)s_ref(a, b) ((a)->idx == (b)->idx)
#define ext_find__%(VVIT)s_%(VVIT)s_void_ref vf_vv_find
#define ext_remove_if__%(VSIT)s_%(VSIT)s_%(DDL)s__destroyObjects__void__lambda0 vf_remove_if_l
#define ext_remove_if__%(VSIT)s_%(VSIT)s_%(DDS)s__destroyObjects__void__lambda0 vf_remove_if_s
#define %(FUN)s__ctor(f) ((f)->set = 0)
#define %(FUN)s__ctor_copy vf_fun_copy
#define %(FUN)s__ctor_move(d, s) ((d)->set = (s)->set, (s)->set = 0)
#define %(FUN)s__op_bool__0(f) ((f)->set)
#define %(FUN)s__op_call__1 vf_cb_call
#define %(FUN)s__dtor(f) ((void)0)
#define vf_msec__ctor__int_ref(d, x) ((d)->ticks = *(x))
#define vf_msec__count__0(d) ((d)->ticks)
#define ext_op_gt__vf_msec_ref_vf_msec_ref(a, b) ((a)->ticks > (b)->ticks)
#define ext_op_lt__vf_msec_ref_vf_msec_ref(a, b) ((a)->ticks < (b)->ticks)
#define std_this_thread_sleep_for(d) std_this_thread_yield()
''' % D

GHOST = GHOST_BOUNDS + r'''
struct vf_sobj vf_fobj;            /* the focus object */
struct vf_sobj vf_oobj;            /* stands for every other object */
int g_mine;                        /* references to the focus object held by the container under verification and by locals of the verified call */
int g_ext;                         /* references to it held by other owners */
int g_untracked;                   /* further entries of the focus object in the list (the same object added again) */
struct vf_mutex *vf_dd_lock;       /* destructionLock of the object under verification (0: single-thread class) */
struct %(VS)s *vf_dd_list;         /* its ElementsToBeDestroyed */
_Bool g_in_dtor;                   /* the verified function is the destructor (exclusive access by the language rules) */
_Bool g_cb_set;                    /* a pre-destruction callback is installed */
int g_cb, g_f_cb;                  /* callback invocations: all / on the focus object */
int g_f_destroyed;                 /* destructions of the focus object */
int g_ev, g_t_cb, g_t_destroy;     /* event clock */
int g_nacq, g_nrel;                /* acquisitions / releases of destructionLock by the verified call */
_Bool g_cs1_has_f, g_rel1_has_f, g_removed_f; unsigned long g_cs1_size, g_rel1_size, g_removed, g_tail;
#define EV(x) do { g_ev = g_ev + 1; (x) = g_ev; } while (0)
#define LOCK_HELD (vf_dd_lock != 0 && vf_dd_lock->excl_me)
#define FREE(m) (!(m).excl_me && (m).shared_me == 0)
#define FOK ((vf_fobj.life == VF_LIVE || vf_fobj.life == VF_DEAD) && g_mine >= 0 && g_mine <= 10 && g_ext >= 0 && g_ext <= 100 && g_untracked >= 0 && g_untracked <= 3 && \
             (vf_fobj.life == VF_LIVE ? (vf_fobj.refs == g_mine + g_ext && vf_fobj.refs >= 1) : (g_mine == 0 && g_untracked == 0)))
#define VSOK(v) ((v).size < 5000 && (!(v).has_f || (v).fpos < (v).size))
#define GZ (g_cb == 0 && g_f_cb == 0 && g_f_destroyed == 0 && g_ev == 0 && g_t_cb == 0 && g_t_destroy == 0 && g_nacq == 0 && g_nrel == 0 && !g_removed_f && g_removed == 0 && g_tail == 0)

/* R: the list is only looked at under the lock; what other threads (and re-entrant callbacks /
   destructors of the same thread) left there is arbitrary but well-formed */
void vf_dd_env_list(void)
{
  struct %(VS)s *q = vf_dd_list;
  _Bool old_in = q->has_f;
  int locals = g_mine - (old_in ? 1 : 0) - g_untracked;
  q->size = vf_nondet_ulong(); q->fpos = vf_nondet_ulong();
  _Bool in = 0;
  if (vf_fobj.life == VF_LIVE) {
    in = old_in;
    if (g_ext > 0) {
      /* another owner exists: it may drop or duplicate its references, and add the object (again) */
      g_ext = vf_nondet_int(); __CPROVER_assume(g_ext >= 0 && g_ext <= 100);
      if (vf_nondet_bool()) in = 1;
      if (in) { g_untracked = vf_nondet_int(); __CPROVER_assume(g_untracked >= 0 && g_untracked <= 3); }
    }
    if (old_in && in && locals == 0 && g_ext == 0 && g_untracked == 0 && vf_nondet_bool()) in = 0;   /* reaped by another destroyObjects() */
    if (!in) g_untracked = 0;
    if (!in && locals == 0 && g_ext == 0) { vf_fobj.life = VF_DEAD; vf_fobj.refs = 0; }
  } else { g_untracked = 0; g_ext = 0; }
  q->has_f = in;
  g_mine = locals + (in ? 1 : 0) + g_untracked;
  if (vf_fobj.life == VF_LIVE) vf_fobj.refs = g_mine + g_ext;
  q->felem.p = in ? &vf_fobj : (struct vf_sobj *)0;
  q->other.p = 0;
  __CPROVER_assume(VSOK(*q) && q->size < 4000 && q->size >= (unsigned long)g_untracked + (in ? 1UL : 0UL));
}
void vf_dd_acquired(struct vf_mutex *m)
{
  if (m != vf_dd_lock) return;
  vf_dd_env_list();
  if (g_nacq == 0) { g_cs1_has_f = vf_dd_list->has_f; g_cs1_size = vf_dd_list->size; }
  if (g_nacq < 100) g_nacq = g_nacq + 1;
}
void vf_dd_releasing(struct vf_mutex *m)
{
  if (m != vf_dd_lock) return;
  if (g_nrel == 0) { g_rel1_has_f = vf_dd_list->has_f; g_rel1_size = vf_dd_list->size; }
  if (g_nrel < 100) g_nrel = g_nrel + 1;
}
#define VF_HOOK_ACQUIRED(m, s) vf_dd_acquired(m)
#define VF_HOOK_RELEASING(m, s) vf_dd_releasing(m)

void vf_vs_check(struct %(VS)s *v)
{
  if (v == vf_dd_list && vf_dd_lock != 0 && !g_in_dtor)
    __CPROVER_assert(vf_dd_lock->excl_me, "[L1] ElementsToBeDestroyed is accessed without holding destructionLock");
}
/* ---- shared_ptr<X> ---- */
void vf_obj_destroyed(void)
{
  __CPROVER_assert(!LOCK_HELD, "[C16] the destructor of an object runs while destructionLock is held (a destructor that re-enters the container would deadlock)");
  vf_fobj.life = VF_DEAD;
  if (g_f_destroyed < 100) g_f_destroyed = g_f_destroyed + 1;
  EV(g_t_destroy);
  if (vf_dd_lock == 0 && !g_in_dtor) vf_dd_env_list();       /* single-thread class: the destructor may re-enter add/size/destroyObjects */
}
void vf_sp_copy(struct %(SP)s *d, struct %(SP)s *s)
{
  d->p = s->p;
  if (s->p == &vf_fobj) {
    __CPROVER_assert(vf_fobj.life == VF_LIVE, "[C16] a shared_ptr to a destroyed object is copied");
    vf_fobj.refs = vf_fobj.refs + 1; g_mine = g_mine + 1;
  }
}
void vf_sp_release(struct %(SP)s *s)
{
  if (s->p == &vf_fobj) {
    __CPROVER_assert(vf_fobj.life == VF_LIVE && vf_fobj.refs >= 1 && g_mine >= 1, "[C16] a reference to the object is released that the container does not hold (double release / destroyed twice)");
    vf_fobj.refs = vf_fobj.refs - 1; g_mine = g_mine - 1;
    s->p = 0;
    if (vf_fobj.refs == 0) vf_obj_destroyed();
  }
  s->p = 0;
}
long vf_sp_use_count(struct %(SP)s *s)
{
  if (s->p == 0) return 0;
  if (s->p == &vf_fobj) {
    /* R: other owners drop or duplicate their references at any time - as long as there is one */
    if (g_ext > 0) { g_ext = vf_nondet_int(); __CPROVER_assume(g_ext >= 0 && g_ext <= 100); vf_fobj.refs = g_mine + g_ext; }
    return vf_fobj.refs;
  }
  long r = vf_nondet_int();
  __CPROVER_assume(r >= 1 && r < 1000);
  return r;
}
/* ---- vector<shared_ptr<X>> ---- */
void vf_vs_clear(struct %(VS)s *v)
{
  vf_vs_check(v);
  if (v->has_f) vf_sp_release(&v->felem);
  v->has_f = 0; v->size = 0;
  if (v == vf_dd_list && g_untracked > 0) {
    /* further entries of the same object */
    vf_fobj.refs = vf_fobj.refs - g_untracked; g_mine = g_mine - g_untracked; g_untracked = 0;
    if (vf_fobj.life == VF_LIVE && vf_fobj.refs == 0) vf_obj_destroyed();
  }
}
struct %(SP)s *vf_vsit_deref(struct %(VSIT)s *it)
{
  vf_vs_check(it->v);
  __CPROVER_assert(it->idx < it->v->size, "[C16] the end iterator of a shared_ptr vector is dereferenced");
  if (it->v->has_f && it->idx == it->v->fpos) return &it->v->felem;
  it->v->other.p = &vf_oobj;
  return &it->v->other;
}
/* push_back(const T&) copies, push_back(T&&) moves; appended at the end; may throw bad_alloc (strong guarantee) */
void vf_vs_push(struct %(VS)s *v, struct %(SP)s *e, int move)
{
  vf_vs_check(v);
  if (vf_nondet_bool()) { vf_exc = 1; return; }
  if (e->p == &vf_fobj) {
    if (!move) { __CPROVER_assert(vf_fobj.life == VF_LIVE, "[C16] a shared_ptr to a destroyed object is copied"); vf_fobj.refs = vf_fobj.refs + 1; g_mine = g_mine + 1; }
    if (!v->has_f) { v->has_f = 1; v->fpos = v->size; v->felem.p = &vf_fobj; }
    else {
      __CPROVER_assert(v == vf_dd_list, "[model] the focus object is stored twice in a local vector (model limit)");
      if (g_untracked < 3) g_untracked = g_untracked + 1; else __CPROVER_assume(0);
    }
    if (move) e->p = 0;
  } else if (move) e->p = 0;
  v->size = v->size + 1;
}
void vf_vs_erase(struct %(VSIT)s *ret, struct %(VS)s *v, struct %(VSIT)s *a, struct %(VSIT)s *b)
{
  vf_vs_check(v);
  __CPROVER_assert(a->v == v && b->v == v && a->idx <= b->idx && b->idx <= v->size, "[C16] erase() of an invalid iterator range");
  unsigned long n = b->idx - a->idx;
  if (v->has_f && v->fpos >= a->idx && v->fpos < b->idx) { vf_sp_release(&v->felem); v->has_f = 0; }
  else if (v->has_f && v->fpos >= b->idx) v->fpos = v->fpos - n;
  if (v == vf_dd_list && b->idx == v->size && g_tail >= n) g_tail = g_tail - n;
  v->size = v->size - n;
  ret->v = v; ret->idx = a->idx;
}
/* vector(make_move_iterator(a), make_move_iterator(b)): the elements of [a, b) are moved into a new
   vector (no reference count changes; the source entries become null); allocation may throw before
   anything is moved */
void vf_vs_from_moved(struct %(VS)s *d, struct %(VSIT)s *a, struct %(VSIT)s *b)
{
  struct %(VS)s *v = a->v;
  vf_vs_check(v);
  __CPROVER_assert(b->v == v && a->idx <= b->idx && b->idx <= v->size, "[C16] a vector is built from an invalid iterator range");
  d->size = 0; d->has_f = 0; d->fpos = 0; d->felem.p = 0; d->other.p = 0;
  if (vf_nondet_bool()) { vf_exc = 1; return; }
  d->size = b->idx - a->idx;
  if (v->has_f && v->fpos >= a->idx && v->fpos < b->idx) {
    d->has_f = 1; d->fpos = v->fpos - a->idx; d->felem.p = &vf_fobj;
    v->has_f = 0; v->felem.p = 0;
  }
}
/* ---- vector<void*> ---- */
void vf_vv_push(struct %(VV)s *v, struct vf_sobj **p)
{
  if (vf_nondet_bool()) { vf_exc = 1; return; }
  if (*p == &vf_fobj && !v->has_f) { v->has_f = 1; v->fpos = v->size; }
  v->size = v->size + 1;
}
void vf_vv_find(struct %(VVIT)s *ret, struct %(VVIT)s *a, struct %(VVIT)s *b, void **val)
{
  ret->v = a->v;
  if (*val == (void *)&vf_fobj) { ret->idx = (a->v->has_f && a->v->fpos >= a->idx && a->v->fpos < b->idx) ? a->v->fpos : b->idx; return; }
  ret->idx = vf_nondet_ulong();
  __CPROVER_assume(ret->idx >= a->idx && ret->idx <= b->idx && !(a->v->has_f && ret->idx == a->v->fpos));
}
/* ---- std::function<void(shared_ptr<X>&)> ---- */
void vf_fun_copy(struct %(FUN)s *d, struct %(FUN)s *s)
{
  if (vf_nondet_bool()) { vf_exc = 1; d->set = 0; return; }    /* copying the stored callable may allocate / throw */
  d->set = s->set;
}
/* the user callback: needs the lock to be free (it may call back into the container), may throw,
   may drop the pointer it is handed */
void vf_cb_call(struct %(FUN)s *f, struct %(SP)s *e)
{
  __CPROVER_assert(f->set, "[C16] an empty std::function is called (std::bad_function_call)");
  __CPROVER_assert(!LOCK_HELD, "[C16] the pre-destruction callback runs while destructionLock is held (a callback that re-enters the container would deadlock)");
  if (g_cb < VF_BIG) g_cb = g_cb + 1;
  if (e->p == &vf_fobj) { if (g_f_cb < 100) g_f_cb = g_f_cb + 1; EV(g_t_cb); }
  if (vf_dd_lock == 0 && !g_in_dtor) vf_dd_env_list();       /* single-thread class: the callback may re-enter add/size/destroyObjects */
  if (vf_nondet_bool()) { vf_exc = 1; vf_user_threw = 1; return; }
  if (vf_nondet_bool()) vf_sp_release(e);
}
/* ---- std::remove_if over the whole list with the lowered predicate ---- */
#define REMOVE_IF(NAME, LAM) \
_Bool LAM##__op_call_T_%(SP)s(struct LAM *vf_c, struct %(SP)s *element); \
void NAME(struct %(VSIT)s *ret, struct %(VSIT)s *a, struct %(VSIT)s *b, struct LAM *pred) \
{ \
  struct %(VS)s *v = a->v; \
  vf_vs_check(v); \
  __CPROVER_assert(b->v == v && a->idx == 0 && b->idx == v->size, "[model] remove_if over a sub-range (model limit)"); \
  unsigned long k = 0; \
  if (v->size > (v->has_f ? 1UL : 0UL)) { \
    v->other.p = &vf_oobj; \
    (void)LAM##__op_call_T_%(SP)s(pred, &v->other);        /* some other element: any outcome */ \
    k = vf_nondet_ulong(); \
    __CPROVER_assume(k <= v->size - (v->has_f ? 1UL : 0UL) - (unsigned long)g_untracked); \
  } \
  _Bool rf = 0; \
  if (v->has_f) rf = LAM##__op_call_T_%(SP)s(pred, &v->felem); \
  if (rf) { \
    __CPROVER_assert(g_ext == 0, "[C16] an object that another owner still holds is removed from the list (it would be destroyed by that owner, at an arbitrary time)"); \
    vf_sp_release(&v->felem);          /* overwritten by a move-assignment or left in the tail: the list's reference is gone */ \
    v->has_f = 0; g_removed_f = 1; \
  } else if (v->has_f) { \
    unsigned long np = vf_nondet_ulong(); \
    __CPROVER_assume(np <= v->fpos && np < v->size - k); \
    v->fpos = np; \
  } \
  g_removed = k + (rf ? 1UL : 0UL); g_tail = g_removed; \
  ret->v = v; ret->idx = v->size - g_removed; \
}
struct %(DDL)s__destroyObjects__void__lambda0; struct %(DDS)s__destroyObjects__void__lambda0;
#ifdef VF_HAVE_%(DDL)s__destroyObjects__void__lambda0__op_call_T_%(SP)s
REMOVE_IF(vf_remove_if_l, %(DDL)s__destroyObjects__void__lambda0)
#endif
#ifdef VF_HAVE_%(DDS)s__destroyObjects__void__lambda0__op_call_T_%(SP)s
REMOVE_IF(vf_remove_if_s, %(DDS)s__destroyObjects__void__lambda0)
#endif
''' % D

UNIT = dict(
    name='delayed_destructor',
    driver='drivers/delayed_destructor.cpp',
    names=NAMES, ghost=GHOST,
    assumptions=[
        'std::shared_ptr / std::vector / std::function / std::remove_if / std::find are abstract models: one focus object with exact reference count (split into references held by the verified code and by other owners), all other objects arbitrary; remove_if over the whole list applies the real (lowered) predicate to the focus element and to one arbitrary other element; std::move_iterator / vector(first, last) from move iterators (not used by the current source; present so that a rewrite using them is decided instead of undecided) move the range into a new vector without reference-count changes, allocation may throw',
        'other owners change their reference count only while they hold at least one reference (no std::weak_ptr::lock() resurrection)',
        'the user callback may throw and may reset the pointer it is handed; it does not copy it',
        'environment (rely): whenever destructionLock is acquired the list is arbitrary but well-formed (other threads and re-entrant callbacks / destructors of the same thread may have added or reaped); for the single-thread class the same step is taken inside every callback and object destructor',
        'the destructor of DelayedDestructor has exclusive access (language rule); ENABLE_TRIPWIRE is not defined (default build)',
        'chrono durations are tick counts in milliseconds; destroyObjects(delay) is verified for 0 <= delay <= 10^9 ms (the int conversion of delay/50 overflows for longer delays)',
    ])

TAGMAP = {'L1': 'C16', 'L2': 'C16 C20', 'L5': 'C16', 'noexcept': 'C16 C20', 'model': 'C16', 'life': 'C16'}
R3, G3 = CNT_R(1000), CNT_G(40)
DGH = ('g_cb_set, vf_fobj, vf_oobj, g_mine, g_ext, g_untracked, g_cb, g_f_cb, g_f_destroyed, g_ev, g_t_cb, g_t_destroy, g_nacq, g_nrel, g_cs1_has_f, g_rel1_has_f, g_removed_f, '
       'g_cs1_size, g_rel1_size, g_removed, g_tail, ')
SG = DGH + GHOST_ASSIGNS
L = 'self->ElementsToBeDestroyed'
LOCK = 'self->destructionLock'
EVB = 'g_ev >= 0 && g_ev <= 10 && g_t_cb >= 0 && g_t_cb <= g_ev && g_t_destroy >= 0 && g_t_destroy <= g_ev'


PROLOGUE = ('g_cb = 0; g_f_cb = 0; g_f_destroyed = 0; g_ev = 0; g_t_cb = 0; g_t_destroy = 0; g_nacq = 0; g_nrel = 0; g_removed_f = 0; g_removed = 0; g_tail = 0; '
            'vf_user_threw = 0; g_cb_set = self->callBeforeDeleteFunction.set;')


def setup(locked):
    s = ('vf_dd_list = &%s; %s.other.p = 0; g_in_dtor = 0; ' % (L, L))
    s += ('vf_dd_lock = &%s; %s.guards = 0; ' % (LOCK, LOCK)) if locked else 'vf_dd_lock = 0; '
    s += 'if (%s.has_f) %s.felem.p = &vf_fobj; else %s.felem.p = 0; g_cb_set = self->callBeforeDeleteFunction.set;' % (L, L, L)
    return s


def pre(locked):
    ps = ['vf_dd_list == &%s && VSOK(%s) && vf_oobj.life == VF_LIVE && !vf_exc' % (L, L),
          'FOK',
          'g_mine == (%s.has_f ? 1 : 0) + g_untracked && (%s.has_f ==> vf_fobj.life == VF_LIVE) && (g_untracked > 0 ==> %s.has_f) && %s.size >= (unsigned long)g_untracked + (%s.has_f ? 1UL : 0UL)' % (L, L, L, L, L),
          CNT_OK]
    if locked:
        ps.append(('C16', 'vf_dd_lock == &%s && FREE(%s) && vf_held == 0' % (LOCK, LOCK), 'destroyObjects() is only called with destructionLock released (it is not recursive)'))
    else:
        ps.append('vf_dd_lock == 0 && vf_held == 0')
    return ps


def post_inv(locked):
    q = ('VSOK(%s) && FOK && g_mine == (%s.has_f ? 1 : 0) + g_untracked && (%s.has_f ==> (vf_fobj.life == VF_LIVE && %s.felem.p == &vf_fobj)) && g_tail == 0' % (L, L, L, L))
    if locked:
        q += ' && FREE(%s) && vf_held == 0' % LOCK
    return q


FN = {}
for locked, cls in ((True, 'DelayedDestructor'), (False, 'DelayedDestructorSingleThread')):
    is_cls = (lambda fm, cls=cls: (fm.get('class') or '').startswith(cls + '_') or (fm.get('class') or '') == cls)
    LK = ('lock.owns && lock.m == &%s && %s.excl_me && %s.shared_me == 0 && vf_held == 1' % (LOCK, LOCK, LOCK)) if locked else 'vf_held == 0'
    UNLK = ('!lock.owns && lock.m == &%s && FREE(%s) && vf_held == 0' % (LOCK, LOCK)) if locked else 'vf_held == 0'
    CS_F = 'g_cs1_has_f' if locked else '__CPROVER_old(%s.has_f)' % L
    SCAN = ('vf_begin0.v == &%(L)s && vf_end0.v == &%(L)s && vf_range0 == &%(L)s && vf_end0.idx == %(L)s.size && vf_begin0.idx <= %(L)s.size && VSOK(%(L)s) && VSOK(ecall) && '
            '%(LK)s && !vf_exc && FOK && vf_oobj.life == VF_LIVE && ecall.size <= vf_begin0.idx && epointers.size == ecall.size && (%(L)s.has_f ==> (vf_fobj.life == VF_LIVE && %(L)s.felem.p == &vf_fobj)) && '
            '(ecall.has_f ? (%(L)s.has_f && %(L)s.fpos < vf_begin0.idx && g_ext == 0 && g_untracked == 0 && g_mine == 2 && epointers.has_f && epointers.fpos < epointers.size && ecall.felem.p == &vf_fobj) '
            ': (g_mine == (%(L)s.has_f ? 1 : 0) + g_untracked && !epointers.has_f)) && (g_untracked > 0 ==> %(L)s.has_f) && '
            'g_cb == 0 && g_f_cb == 0 && g_f_destroyed == 0 && g_ev == 0 && !g_removed_f && g_removed == 0 && g_tail == 0 && ' + CNT_OK) % dict(L=L, LK=LK)
    CALLB = ('vf_begin1.v == &ecall && vf_end1.v == &ecall && vf_range1 == &ecall && vf_end1.idx == ecall.size && vf_begin1.idx <= ecall.size && VSOK(ecall) && '
             '%(UNLK)s && !vf_exc && !vf_user_threw && deleteFunc.set && FOK && vf_oobj.life == VF_LIVE && g_cb >= 0 && g_cb <= VF_BIG && ' + EVB + ' && '
             'g_f_cb == ((ecall.has_f && ecall.fpos < vf_begin1.idx) ? 1 : 0) && (g_f_cb == 1 ==> g_t_cb > 0) && g_f_cb >= 0 && g_f_cb <= 1 && g_f_destroyed >= 0 && g_f_destroyed <= 1 && g_ev == g_f_cb + g_f_destroyed && '
             '(ecall.has_f ? (g_removed_f && !%(L)s.has_f && g_untracked == 0 && VSOK(%(L)s) && (ecall.felem.p == &vf_fobj ? (vf_fobj.life == VF_LIVE && g_mine == 1 && g_ext == 0 && vf_fobj.refs == 1 && g_f_destroyed == 0) '
             ': (ecall.felem.p == 0 && g_f_destroyed == 1 && g_mine == 0 && vf_fobj.life == VF_DEAD && g_f_cb == 1 && g_t_cb < g_t_destroy))) '
             ': (!g_removed_f && g_f_destroyed == 0 && g_f_cb == 0 && %(KEEP)s)) && ' + CNT_OK) % dict(UNLK=UNLK, L=L, KEEP=(
                 'g_mine == __CPROVER_loop_entry(g_mine) && vf_fobj.refs == __CPROVER_loop_entry(vf_fobj.refs) && vf_fobj.life == __CPROVER_loop_entry(vf_fobj.life)' if locked else
                 'g_mine == (%s.has_f ? 1 : 0) + g_untracked && VSOK(%s) && (%s.has_f ==> (vf_fobj.life == VF_LIVE && %s.felem.p == &vf_fobj)) && (g_untracked > 0 ==> %s.has_f) && %s.size >= (unsigned long)g_untracked + (%s.has_f ? 1UL : 0UL)' % (L, L, L, L, L, L, L)))
    if locked:
        ACCOUNT = '(g_nacq >= 1 ==> ((g_rel1_has_f ? 1 : 0) + (g_removed_f ? 1 : 0) == (g_cs1_has_f ? 1 : 0) && g_rel1_size + g_removed == g_cs1_size))'
    else:
        ACCOUNT = '(g_removed_f ==> __CPROVER_old(%s.has_f))' % L
    FN.setdefault(r'%s::destroyObjects' % cls, []).append(dict(
        props='C16 C20', where=lambda fm: 'delay' not in ' '.join(fm['params']), setup=setup(locked), prologue=PROLOGUE,
        requires=pre(locked),
        ensures=[('C16 C20', '!vf_exc' + (' && FREE(%s) && vf_held == 0' % LOCK if locked else ' && vf_held == 0'), 'noexcept: nothing escapes (also when the callback throws); the lock is released on every path'),
                 ('C16', 'VSOK(%s) && g_tail == 0' % L, 'the list stays well-formed, no moved-from tail is left behind'),
                 ('C16', 'FOK', 'reference accounting of the focus object'),
                 ('C16', 'g_mine == (%s.has_f ? 1 : 0) + g_untracked' % L, 'on return the container holds exactly the references of its list entries (no copy leaks, none is dropped twice)'),
                 ('C16', '(%s.has_f ==> (vf_fobj.life == VF_LIVE && %s.felem.p == &vf_fobj))' % (L, L), 'listed objects are alive'),
                 ('', '(g_untracked > 0 ==> %s.has_f) && %s.size >= (unsigned long)g_untracked + (%s.has_f ? 1UL : 0UL) && vf_oobj.life == VF_LIVE && vf_dd_list == &%s' % (L, L, L, L) +
                      (' && vf_dd_lock == &%s' % LOCK if locked else ' && vf_dd_lock == 0'), 'model bookkeeping'),
                 ('C16', 'g_f_destroyed >= 0 && g_f_destroyed <= 1 && (g_f_destroyed == 1 ==> (g_removed_f && vf_fobj.life == VF_DEAD))', 'an object is destroyed at most once, and only after it was taken off the list'),
                 ('C16', '(g_f_destroyed == 1 && g_cb_set && !vf_user_threw) ==> (g_f_cb == 1 && g_t_cb < g_t_destroy)', 'the callback runs exactly once on each reaped object, before its destruction (unless a callback threw: then the remaining objects are destroyed without it)'),
                 ('C16', 'g_f_cb >= 0 && g_f_cb <= 1 && g_nacq >= 0 && g_nrel >= 0 && (g_f_cb == 1 ==> g_removed_f)', 'the callback only sees objects that are being reaped'),
                 ('C16', 'g_removed_f ==> g_f_destroyed == 1', 'a reaped object is destroyed before destroyObjects returns (also when a callback throws)'),
                 ('C16', ACCOUNT, 'nothing is lost or duplicated: every object of the list is still listed or was reaped'),
                 ('C16', ('(g_nacq == 0 ==> (__CPROVER_return_value == ~0UL && g_f_destroyed == 0 && g_cb == 0)) && vf_n_block == __CPROVER_old(vf_n_block)' if locked else 'vf_n_mutex_ops == __CPROVER_old(vf_n_mutex_ops) && vf_n_block == __CPROVER_old(vf_n_block)'),
                  'a lock time-out returns size_t(-1) without touching anything; never blocks without bound' if locked else 'the single-thread class takes no lock'),
                 ('', EVB + ' && g_cb >= 0 && ' + CNT_OK, 'ghost frame')],
        assigns=['*self, ' + SG],
        loops={0: dict(invariant=[('C16', SCAN, 'scan: an object is selected (copied to ecall, pointer noted) exactly when the list holds its only reference')],
                       assigns='vf_begin0.idx, %s.other, ecall, epointers, vf_fobj.refs, g_mine, g_ext, vf_exc' % L, decreases='%s.size - vf_begin0.idx' % L),
               1: dict(invariant=[('C16', CALLB, 'callbacks: lock not held; the callback has run exactly on the selected objects passed so far')],
                       assigns='vf_begin1.idx, ecall.other, ecall.felem, vf_fobj, g_mine, g_cb, g_f_cb, g_f_destroyed, g_ev, g_t_cb, g_t_destroy, vf_exc, vf_user_threw' + ('' if locked else ', %s, g_ext, g_untracked, vf_oobj' % L),
                       decreases='ecall.size - vf_begin1.idx')}))

    # ---- the other members -------------------------------------------------------------------------
    INV = ('VSOK(%(L)s) && FOK && g_mine == (%(L)s.has_f ? 1 : 0) + g_untracked && (%(L)s.has_f ==> (vf_fobj.life == VF_LIVE && %(L)s.felem.p == &vf_fobj)) && (g_untracked > 0 ==> %(L)s.has_f) && '
           '%(L)s.size >= (unsigned long)g_untracked + (%(L)s.has_f ? 1UL : 0UL) && vf_oobj.life == VF_LIVE') % dict(L=L)
    FREEL = (' && FREE(%s) && vf_held == 0' % LOCK) if locked else ' && vf_held == 0'
    DDP = ('vf_dd_list == &%s && ' % L) + (('vf_dd_lock == &%s' % LOCK) if locked else 'vf_dd_lock == 0')
    FN.setdefault(r'%s::destroyObjects' % cls, []).append(dict(
        props='C16 C20', where=lambda fm: 'delay' in ' '.join(fm['params']), setup=setup(locked),
        requires=[DDP + ' && ' + INV + FREEL + ' && !vf_exc && delay->ticks >= 0 && delay->ticks <= 1000000000 && ' + R3],
        ensures=[('C16 C20', '!vf_exc' + FREEL, 'the lock is released on every path (also after a time-out in the middle)'),
                 ('C16', INV, 'list and reference accounting stay consistent across the repeated reaping rounds'),
                 ('C16', 'vf_n_block == __CPROVER_old(vf_n_block)', 'never blocks without bound (timed lock attempts only)')],
        assigns=['*self, ' + SG],
        loops={0: dict(invariant=[('C16', LK + ' && !vf_exc && cnt >= 0 && cnt <= delayCount && delayCount >= 0 && delayCount <= 20000000 && ' + INV + ' && ' + DDP +
                                   ' && vf_n_block == __CPROVER_loop_entry(vf_n_block) && ' + CNT_OK, 'reaping rounds: destroyObjects() is only called with the lock released')],
                       assigns='cnt, elementSize, ' + ('lock.owns, ' if locked else '') + '*self, ' + SG, decreases='delayCount - cnt')}))
    FN[r'%s::size' % cls] = dict(
        props='C16', setup=setup(locked), prologue='g_nacq = 0; g_nrel = 0;',
        requires=[DDP + ' && ' + INV + FREEL + ' && !vf_exc && ' + R3],
        ensures=[('C16', '!vf_exc && __CPROVER_return_value == %s.size' % L + (' && __CPROVER_return_value == g_cs1_size && %s.has_f == g_cs1_has_f && g_nacq == 1' % L if locked else ''),
                  'the number of objects waiting, read in one critical section'),
                 ('C16', INV + FREEL, 'nothing else changes; the lock is released')],
        assigns=['*self, ' + SG])
    FN[r'%s::addObjectsToBeDestroyed' % cls] = dict(
        props='C16 C20', setup=setup(locked) + ' if (vf_nondet_bool()) obj->p = &vf_fobj; else if (vf_nondet_bool()) obj->p = &vf_oobj; else obj->p = 0;', prologue='g_nacq = 0; g_nrel = 0; g_f_destroyed = 0;',
        requires=[DDP + ' && VSOK(%s) && %s.size < 4000 && FOK && g_mine == (%s.has_f ? 1 : 0) + g_untracked + (obj->p == &vf_fobj ? 1 : 0) && (obj->p == &vf_fobj ==> vf_fobj.life == VF_LIVE) && g_untracked <= 2 && ' % (L, L, L) +
                  '(%s.has_f ==> (vf_fobj.life == VF_LIVE && %s.felem.p == &vf_fobj)) && (g_untracked > 0 ==> %s.has_f) && %s.size >= (unsigned long)g_untracked + (%s.has_f ? 1UL : 0UL) && vf_oobj.life == VF_LIVE' % (L, L, L, L, L) +
                  FREEL + ' && !vf_exc && ' + R3],
        ensures=[('C16', '!vf_exc ==> (%s.size == %s + 1 && (__CPROVER_old(obj->p) == &vf_fobj ==> %s.has_f))' % (L, 'g_cs1_size' if locked else '__CPROVER_old(%s.size)' % L, L),
                  'the object is appended to the list (reference accounting below: none is dropped; a copy is balanced by the parameter)'),
                 ('C16 C20', 'vf_exc ==> (obj->p == __CPROVER_old(obj->p) && %s.size == %s)' % (L, 'g_cs1_size' if locked else '__CPROVER_old(%s.size)' % L), 'if the vector cannot grow the caller keeps the object and the list is unchanged'),
                 ('C16', 'VSOK(%s) && FOK && g_mine == (%s.has_f ? 1 : 0) + g_untracked + (obj->p == &vf_fobj ? 1 : 0) && g_f_destroyed == 0' % (L, L), 'reference accounting: nothing is destroyed by add'),
                 ('C16 C20', 'vf_held == 0' + (' && FREE(%s)' % LOCK if locked else ''), 'the lock is released on normal and exceptional exit')],
        assigns=['*self, *obj, ' + SG])
    FN[r'%s::dtor' % cls] = dict(
        props='C16 C20', setup=setup(locked) + ' g_in_dtor = 1;',
        requires=[DDP + ' && g_in_dtor && ' + INV + FREEL + ' && !vf_exc && ' + R3],
        ensures=[('C16 C20', '!vf_exc && vf_held == 0', 'the destructor never throws and waits a bounded number of rounds'),
                 ('C16', 'g_mine == 0 && FOK && (vf_fobj.life == VF_LIVE ==> g_ext >= 1)',
                  'afterwards the container holds no reference: an object nobody else owns has been destroyed (exactly once: model assertions), an object still owned elsewhere lives on')],
        assigns=['*self, ' + SG],
        loops={0: dict(invariant=[('C16', 'ii >= 0 && ii <= 5 && (ii <= 4 || %s.size == 0) && !vf_exc && g_in_dtor && ' % L + DDP + ' && ' + INV + FREEL + ' && ' + CNT_OK, 'bounded retry loop of the destructor')],
                       assigns='ii, *self, ' + SG, decreases='6 - ii')})
    FN[r'%s::ctor' % cls] = dict(
        props='C16', requires=['!vf_exc'],
        ensures=[('C16', '!vf_exc && %s.size == 0 && !%s.has_f && !self->callBeforeDeleteFunction.set' % (L, L) + (' && FREE(%s)' % LOCK if locked else ''), 'a new container is empty, unlocked, without callback')],
        assigns='*self')
    FN[r'%s::ctor__std_function.*' % cls] = dict(
        props='C16', requires=['!vf_exc && self != (void *)callFirst'],
        ensures=[('C16', '!vf_exc && %s.size == 0 && !%s.has_f && self->callBeforeDeleteFunction.set == __CPROVER_old(callFirst->set)' % (L, L) + (' && FREE(%s)' % LOCK if locked else ''), 'a new container is empty and unlocked and owns the callback')],
        assigns=['*self', '*callFirst'])
