#!/usr/bin/env python3
"""Build + verify machinery: clang AST -> cxx2c -> splice contracts -> DFCC -> CBMC."""
import hashlib
import importlib.util
import json
import os
import re
import subprocess
import sys
import time
import concurrent.futures as cf

VERIF = os.path.dirname(os.path.dirname(os.path.abspath(__file__)))
REPO = os.environ.get('VF_REPO', '/repo')
CACHE = os.environ.get('VF_CACHE') or os.path.join(VERIF, '.cache')
sys.path.insert(0, os.path.join(VERIF, 'lower'))

CBMC_FLAGS = ['--bounds-check', '--pointer-check', '--signed-overflow-check', '--div-by-zero-check',
              '--pointer-overflow-check', '--conversion-check', '--no-malloc-may-fail',
              '--object-bits', '10']
TIMEOUT = int(os.environ.get('VF_TIMEOUT', '900'))
MEM_KB = 8 * 1024 * 1024


class Undecided(Exception):
    """exit 2: the machinery could not decide (never a violation)"""


def sha(*parts):
    h = hashlib.sha256()
    for p in parts:
        h.update(p.encode() if isinstance(p, str) else p)
        h.update(b'\0')
    return h.hexdigest()[:24]


def read(p):
    with open(p) as f:
        return f.read()


def load_spec(unit):
    path = os.path.join(VERIF, 'specs', unit + '.py')
    if os.path.join(VERIF, 'specs') not in sys.path:
        sys.path.insert(0, os.path.join(VERIF, 'specs'))
    sp = importlib.util.spec_from_file_location('spec_' + unit, path)
    m = importlib.util.module_from_spec(sp)
    sp.loader.exec_module(m)
    return m


def all_units():
    return sorted(f[:-3] for f in os.listdir(os.path.join(VERIF, 'specs')) if f.endswith('.py') and not f.startswith('_'))


def repo_headers_hash():
    h = hashlib.sha256()
    for root, _, files in sorted(os.walk(os.path.join(REPO, 'gmlc'))):
        for f in sorted(files):
            p = os.path.join(root, f)
            h.update(p.encode())
            h.update(open(p, 'rb').read())
    return h.hexdigest()[:24]


def verif_inputs_hash(unit):
    h = hashlib.sha256()
    for d in ('lower', 'models', 'bin'):
        for f in sorted(os.listdir(os.path.join(VERIF, d))):
            p = os.path.join(VERIF, d, f)
            if os.path.isfile(p) and not f.endswith('.pyc'):
                h.update(open(p, 'rb').read())
    sd = os.path.join(VERIF, 'specs')
    for p in sorted(os.path.join(sd, f) for f in os.listdir(sd) if f.endswith('.py')):
        h.update(open(p, 'rb').read())
    for f in sorted(os.listdir(os.path.join(VERIF, 'drivers'))):
        h.update(open(os.path.join(VERIF, 'drivers', f), 'rb').read())
    return h.hexdigest()[:24]


# ----------------------------------------------------------------------------- build
def short_tname(t):
    return t.replace('gmlc::libguarded::', '').replace('gmlc::concurrency::', '')


def match_spec(spec, fmeta):
    """-> merged spec entry for this function or None"""
    tn = short_tname(fmeta['tname'])
    hit = None
    for pat, ent in spec.FN.items():
        if isinstance(ent, list):
            ents = ent
        else:
            ents = [ent]
        if re.fullmatch(pat, tn):
            for e in ents:
                w = e.get('where')
                if w is None or w(fmeta):
                    if hit is not None:
                        raise Undecided('two spec entries match %s (%s)' % (fmeta['cname'], tn))
                    hit = dict(e)
                    hit['_pat'] = pat
    return hit


def subst(text, fmeta):
    if text is None:
        return None
    t = text
    t = t.replace('$C', fmeta.get('class') or '')
    for i, a in enumerate(fmeta.get('targs') or []):
        t = t.replace('$T%d' % (i + 1), a)
    for i, a in enumerate(fmeta.get('ftargs') or []):
        t = t.replace('$F%d' % (i + 1), a)
    t = t.replace('$FN', fmeta['cname'])
    # $ARG1, $ARG2 ...: names of the C++ parameters in order (self / vf_ret excluded), so that a
    # contract does not depend on what a parameter happens to be called in the source
    if '$ARG' in t:
        names = [param_decl(p)[1] for p in fmeta.get('params') or []]
        names = [n for n in names if n not in ('self', 'vf_ret', 'vf_c')]
        for i in range(len(names), 0, -1):
            t = t.replace('$ARG%d' % i, names[i - 1])
    return t


def as_list(x):
    if x is None:
        return []
    if isinstance(x, (str, tuple)):
        return [x]
    return list(x)


def clause(c):
    """(tags, expr, text)"""
    if isinstance(c, str):
        m = re.match(r'^\s*\[([^\]]*)\]\s*(.*)$', c, re.S)
        if m:
            return m.group(1).replace(',', ' ').split(), m.group(2), ''
        return [], c, ''
    if len(c) == 2:
        return c[0].replace(',', ' ').split(), c[1], ''
    return c[0].replace(',', ' ').split(), c[1], c[2]


def param_decl(p):
    """'struct X* self' -> (ctype, name)"""
    m = re.match(r'^(.*?)([A-Za-z_][A-Za-z0-9_]*)$', p.strip())
    return m.group(1).strip(), m.group(2)


def build_unit(unit, quiet=True, force_drop=()):
    """force_drop: lowered functions whose loop contracts are NOT applied (their loops are then searched
    to a bounded depth only) - used to confirm a failing loop contract by a property failure"""
    spec = load_spec(unit)
    key = sha(repo_headers_hash(), verif_inputs_hash(unit), unit, ','.join(sorted(force_drop)))
    d = os.path.join(CACHE, unit + '-' + key)
    done = os.path.join(d, 'unit.json')
    if os.path.exists(done):
        return json.load(open(done))
    os.makedirs(d, exist_ok=True)
    driver = os.path.join(VERIF, spec.UNIT['driver'])
    ast = os.path.join(d, 'ast.json')
    t0 = time.time()
    with open(ast, 'w') as out:
        r = subprocess.run(['clang++', '-std=c++17', '-fsyntax-only', '-I' + REPO, '-I' + os.path.join(VERIF, 'drivers'),
                            '-Wno-everything', '-Xclang', '-ast-dump=json', '-Xclang', '-ast-dump-filter=gmlc', driver],
                           stdout=out, stderr=subprocess.PIPE, text=True)
    if r.returncode != 0:
        raise Undecided('clang cannot parse driver %s against the current headers:\n%s' % (driver, r.stderr[-3000:]))
    import cxx2c
    from typenames import Unsupported
    try:
        decls, defs, meta = cxx2c.lower_all(ast, ext_structs=spec.UNIT.get('ext_structs'))
    except Unsupported as e:
        raise Undecided('cxx2c: no lowering rule: %s' % e)
    os.remove(ast)
    import names
    fmeta = {f['cname']: f for f in meta['functions']}
    entries = {}
    for f in meta['functions']:
        e = match_spec(spec, f)
        if e is not None:
            entries[f['cname']] = e
    # every spec pattern must bind (renamed member => undecided, not silent)
    bound = {e['_pat'] for e in entries.values()}
    for pat, ent in spec.FN.items():
        ents = ent if isinstance(ent, list) else [ent]
        if pat not in bound and not all(e.get('optional') for e in ents):
            raise Undecided('spec key %r of unit %s binds no function in the current tree' % (pat, unit))
    # ---- assemble (repeated without the loop contracts of a function whose loop contract no longer
    #      compiles against the current source: that function then falls back to the bounded search)
    drop_loops = set(force_drop)
    for _attempt in range(8):
        # ---- assemble
        lines = []
        linemap = {}

        def add(text):
            for ln in text.split('\n'):
                lines.append(ln)

        add('/* unit %s: assembled verification program (generated) */' % unit)
        add(read(os.path.join(VERIF, 'models', 'rt.h')))
        for extra in spec.UNIT.get('model_headers', []):
            add(read(os.path.join(VERIF, 'models', extra)))
        add(names.names_h())
        add(spec.UNIT.get('names', ''))
        add(decls)
        add('/* which repository functions exist in the current source (models that call a lowered closure are guarded by these) */')
        for f in meta['functions']:
            add('#define VF_HAVE_%s 1' % f['cname'])
        add('/* ---- unit ghost code ---- */')
        add(spec.UNIT.get('ghost', ''))
        add('/* ---- models ---- */')
        add(read(os.path.join(VERIF, 'models', 'models.c')))
        for extra in spec.UNIT.get('model_sources', []):
            add(read(os.path.join(VERIF, 'models', extra)))
        add('/* ---- lowered repository code ---- */')
        # functions the spec replaces by a trusted stub (an assumed contract on a dependency, in executable form)
        stubbed = {fn: e for fn, e in entries.items() if e.get('stub')}
        if stubbed:
            parts = []
            for cn in meta['order']:
                txt = meta['texts'][cn]
                if cn in stubbed:
                    head = txt[:txt.index('/*@CONTRACT')]
                    txt = head + '/* body replaced by the trusted stub of specs/%s.py */\n{\n%s\n}\n' % (unit, subst(stubbed[cn]['stub'], fmeta[cn]).strip('\n'))
                parts.append(txt)
            defs = '\n\n'.join(parts) + '\n'
        pending_prologue = None
        uncontracted = {}          # lowered function -> number of its loops that have no loop contract
        for ln in defs.split('\n'):
            if pending_prologue is not None and ln.strip() == '{':
                lines.append(ln)
                lines.append('  /* ghost prologue (spec): ' + pending_prologue.replace('\n', ' ') + ' */')
                for pl in pending_prologue.strip().split('\n'):
                    lines.append('  ' + pl.strip())
                pending_prologue = None
                continue
            m = re.match(r'^\s*/\*@CONTRACT (\S+)@\*/\s*$', ln)
            if m:
                fn = m.group(1)
                e = entries.get(fn)
                if e is not None and e.get('prologue') and not e.get('stub'):
                    # ghost-only statements executed at function entry (reset of per-call ghost counters)
                    pending_prologue = subst(e['prologue'], fmeta[fn])
                if e is not None and not e.get('inline') and not e.get('harness') and not e.get('stub'):
                    fm = fmeta[fn]
                    for kind in ('requires', 'ensures'):
                        for c in as_list(e.get(kind)):
                            tags, expr, text = clause(c)
                            lines.append('__CPROVER_%s(%s)' % (kind, subst(expr, fm).replace('\n', ' ')))
                            linemap[len(lines)] = {'fn': fn, 'kind': kind, 'tags': tags, 'expr': subst(expr, fm), 'text': text}
                    fr = e.get('frees')
                    if fr is not None:
                        for f1 in ([fr] if isinstance(fr, str) else fr):
                            lines.append('__CPROVER_frees(%s)' % subst(f1, fm).replace('\n', ' '))
                    asg = e.get('assigns')
                    if asg is not None:
                        for a1 in ([asg] if isinstance(asg, str) else asg):
                            lines.append('__CPROVER_assigns(%s)' % subst(a1, fm).replace('\n', ' '))
                            linemap[len(lines)] = {'fn': fn, 'kind': 'assigns', 'tags': [], 'expr': subst(a1, fm), 'text': ''}
                continue
            m = re.match(r'^\s*/\*@LOOP (\S+)\.(\d+)@\*/\s*$', ln)
            if m:
                fn, k = m.group(1), int(m.group(2))
                e = entries.get(fn)
                lp = (e or {}).get('loops', {}).get(k) if fn not in drop_loops else None
                if lp is None:
                    uncontracted[fn] = uncontracted.get(fn, 0) + 1
                if lp is not None:
                    fm = fmeta[fn]
                    if lp.get('assigns') is not None:
                        for a1 in ([lp['assigns']] if isinstance(lp['assigns'], str) else lp['assigns']):
                            lines.append('__CPROVER_assigns(%s)' % subst(a1, fm).replace('\n', ' '))
                            linemap[len(lines)] = {'fn': fn, 'kind': 'loop_assigns', 'loop': k, 'tags': [], 'expr': subst(a1, fm), 'text': ''}
                    for c in as_list(lp.get('invariant')):
                        tags, expr, text = clause(c)
                        lines.append('__CPROVER_loop_invariant(%s)' % subst(expr, fm).replace('\n', ' '))
                        linemap[len(lines)] = {'fn': fn, 'kind': 'loop_invariant', 'loop': k, 'tags': tags, 'expr': subst(expr, fm), 'text': text}
                    if lp.get('decreases'):
                        lines.append('__CPROVER_decreases(%s)' % subst(lp['decreases'], fm))
                        linemap[len(lines)] = {'fn': fn, 'kind': 'decreases', 'loop': k, 'tags': [], 'expr': lp['decreases'], 'text': ''}
                continue
            m = re.match(r'^\s*/\*@AFTERLOOP (\S+)\.(\d+)@\*/\s*$', ln)
            if m:
                fn, k = m.group(1), int(m.group(2))
                lp = (entries.get(fn) or {}).get('loops', {}).get(k) if fn not in drop_loops else None
                if lp is not None and not lp.get('exit_unreachable'):
                    # vacuity guard for the loop contract: an invariant that contradicts the state at loop
                    # entry makes everything behind the loop unreachable (and every obligation there "pass")
                    lines.append('__CPROVER_assert(0, "vf_reach_loop %s.%d: the code behind this loop is reachable (vacuity guard for the loop invariant)");' % (fn, k))
                continue
            lines.append(ln)
            m = re.match(r'^\s*/\* (gmlc/\S+):(\d+) \*/\s*$', ln)
            if m:
                linemap['src'] = linemap.get('src', {})
        # source map: C line -> repo file:line (last comment seen)
        srcmap = {}
        cur = None
        curfn = None
        for i, ln in enumerate(lines, 1):
            m = re.match(r'^\s*/\* (gmlc/\S+):(\d+) \*/\s*$', ln)
            if m:
                cur = (m.group(1), int(m.group(2)))
            if cur:
                srcmap[i] = cur
        # ---- harnesses
        add('/* ---- harnesses ---- */')
        targets = []
        for fn, e in entries.items():
            if e.get('inline') or e.get('contract_only') or e.get('stub'):
                continue
            fm = fmeta[fn]
            h = ['void vf_h_%s(void)' % fn, '{']
            h.append('  VF_GHOST_BOUNDS();')
            if e.get('harness'):
                # plain bounded harness (no contract instrumentation): the spec provides the whole body
                for ln in subst(e['harness'], fm).strip().split('\n'):
                    h.append('  ' + ln.rstrip())
                h.append('  __CPROVER_assert(0, "vf_reach: end of harness is reachable (vacuity guard)");')
                h.append('}')
                add('\n'.join(h))
                targets.append(fn)
                continue
            argn = []
            for p in fm['params']:
                ct, nm = param_decl(p)
                if ct.endswith('*'):
                    base = ct[:-1].strip()
                    if base == 'void':
                        h.append('  void* %s = 0;' % nm)
                    else:
                        h.append('  %s %s_obj; %s %s = &%s_obj;' % (base, nm, ct, nm, nm))
                else:
                    h.append('  %s %s;' % (ct, nm))
                argn.append(nm)
            if e.get('setup'):
                for ln in subst(e['setup'], fm).strip().split('\n'):
                    h.append('  ' + ln.strip())
            h.append('  vf_exc = 0;')
            call = '%s(%s);' % (fn, ', '.join(argn))
            if fm['ret'] != 'void':
                call = '%s vf_result = %s' % (fm['ret'], call)
            h.append('  ' + call)
            if e.get('post'):
                for ln in subst(e['post'], fm).strip().split('\n'):
                    h.append('  ' + ln.strip())
            h.append('  __CPROVER_assert(0, "vf_reach: end of harness is reachable (vacuity guard)");')
            h.append('}')
            add('\n'.join(h))
            targets.append(fn)
        cfile = os.path.join(d, 'unit.c')
        with open(cfile, 'w') as f:
            f.write('\n'.join(lines) + '\n')
        rc, so, se = run(['goto-cc', '-c', '-o', os.path.join(d, 'syntax.gb'), cfile])
        if rc != 0:
            # is the offending line a loop-contract clause?  then drop that function's loop contracts and retry
            culprit = None
            for mm in re.finditer(r'unit\.c:(\d+):', (se or '') + '\n' + (so or '')):
                lm_ = linemap.get(int(mm.group(1)))
                if lm_ and lm_.get('kind') in ('loop_invariant', 'decreases', 'loop_assigns') and lm_['fn'] not in drop_loops:
                    culprit = lm_['fn']
                    break
            if culprit is not None:
                drop_loops.add(culprit)
                continue
            raise Undecided('assembled program of unit %s does not compile (missing model / spec error):\n%s' % (unit, (se or so)[-3000:]))
        break
    # every function the lowered code calls must have a body (a model): a bodiless function would be
    # treated as "unreachable" by the contract instrumentation and make proofs vacuous
    rc, so, se = run(['goto-instrument', '--list-undefined-functions', os.path.join(d, 'syntax.gb')])
    undefined = [ln.strip() for ln in so.split('\n') if ln.strip() and not ln.startswith('Reading') and not ln.strip().startswith('__CPROVER')
                 and not ln.strip().startswith('__builtin') and not ln.strip().startswith('contract::') and ' ' not in ln.strip()]
    os.remove(os.path.join(d, 'syntax.gb'))
    if undefined:
        raise Undecided('unit %s: no model for std entities used by the current source: %s' % (unit, ', '.join(undefined[:20])))
    # call graph closure for contract replacement
    contracted = {fn for fn, e in entries.items() if not e.get('inline') and not e.get('no_replace') and not e.get('harness') and not e.get('stub')}
    repl = {}
    for fn in targets:
        seen = set()
        out = set()
        if entries[fn].get('inline_callees'):
            repl[fn] = []
            continue
        st = list(fmeta[fn]['calls'])
        while st:
            g = st.pop()
            if g in seen:
                continue
            seen.add(g)
            if g in contracted and g != fn:
                out.add(g)
            elif g in fmeta:
                st.extend(fmeta[g]['calls'])
        repl[fn] = sorted(out)
    # loops in the function itself plus every callee whose body is inlined
    loops_closure = {}
    unc_closure = {}
    for fn in targets:
        seen = set()
        st = [fn]
        total = 0
        unc = 0
        while st:
            g = st.pop()
            if g in seen or g not in fmeta:
                continue
            seen.add(g)
            if g != fn and g in repl[fn]:
                continue
            total += fmeta[g]['loops']
            unc += uncontracted.get(g, 0)
            st.extend(fmeta[g]['calls'])
        loops_closure[fn] = total
        unc_closure[fn] = unc
    info = {'unit': unit, 'dir': d, 'cfile': cfile, 'targets': targets, 'replace': repl, 'loops_closure': loops_closure, 'unc_closure': unc_closure,
            'linemap': {str(k): v for k, v in linemap.items() if k != 'src'},
            'srcmap': {str(k): v for k, v in srcmap.items()},
            'entries': {fn: {'props': as_list(e.get('props')) if not isinstance(e.get('props'), str) else e['props'].split(),
                             'pat': e['_pat'], 'bounded': e.get('bounded'), 'cbmc_flags': e.get('cbmc_flags', []),
                             'loop_free': bool(e.get('loop_free')), 'plain': bool(e.get('harness'))}
                        for fn, e in entries.items()},
            'meta': {'functions': meta['functions'], 'records': meta['records']}, 'stubs': sorted(stubbed),
            'tagmap': getattr(spec, 'TAGMAP', {}), 'lower_s': time.time() - t0,
            'spec_assumptions': spec.UNIT.get('assumptions', [])}
    json.dump(info, open(done, 'w'))
    return info


# ----------------------------------------------------------------------------- verify
def run(cmd, timeout=TIMEOUT, cwd=None):
    pre = 'ulimit -v %d; ' % MEM_KB
    try:
        r = subprocess.run(['bash', '-c', pre + ' '.join("'%s'" % c.replace("'", "'\\''") for c in cmd)],
                           capture_output=True, text=True, timeout=timeout, cwd=cwd)
        return r.returncode, r.stdout, r.stderr
    except subprocess.TimeoutExpired:
        return -9, '', 'timeout after %ds' % timeout


def verify_fn(info, fn, solver=None):
    """-> dict(fn, obligations=[...], status, seconds, cmd); a run that dies without a verdict
    (out of memory while other runs compete for it) is repeated once, alone is enough"""
    r = verify_fn_once(info, fn, solver)
    if r.get('status') == 'undecided' and ('Out of memory' in (r.get('why') or '') or 'not JSON' in (r.get('why') or '')):
        time.sleep(20)
        r = verify_fn_once(info, fn, solver)
    return r


def verify_fn_once(info, fn, solver=None):
    d = info['dir']
    cfile = info['cfile']
    tag = fn + ('.' + solver if solver else '')
    resf = os.path.join(d, 'res.' + tag + '.json')
    if os.path.exists(resf):
        return json.load(open(resf))
    t0 = time.time()
    if info['entries'][fn].get('loop_free') and info.get('loops_closure', {}).get(fn, 0) > 0:
        # structural obligation of wait-freedom: decided on the lowered CFG, no solver needed
        return {'fn': fn, 'status': 'done', 'seconds': 0.0, 'solver_s': 0.0, 'cmd': 'structural check on the lowered control-flow graph',
                'obligations': [{'name': fn + '.structure.loop_free', 'status': 'FAILURE', 'line': None, 'function': fn,
                                 'desc': '[C14] this read path must be loop-free (wait-free), but the lowered function contains %d loop(s)' % info['loops_closure'][fn]},
                                {'name': 'vf_reach', 'status': 'FAILURE', 'line': None, 'function': fn, 'desc': 'vf_reach: structural check'}]}
    a = os.path.join(d, tag + '.a.gb')
    b = os.path.join(d, tag + '.b.gb')
    ent = info['entries'][fn]
    cmd1 = ['goto-cc', '-o', a, cfile, '--function', 'vf_h_' + fn]
    rc, so, se = run(cmd1)
    if rc != 0:
        return {'fn': fn, 'status': 'undecided', 'why': 'goto-cc failed: ' + (se or so)[-2000:], 'obligations': [], 'seconds': time.time() - t0}
    if ent.get('plain'):
        cmd2 = ['cp', a, b]
        run(cmd2)
    else:
        cmd2 = ['goto-instrument', '--dfcc', 'vf_h_' + fn, '--enforce-contract', fn]
        for g in info['replace'].get(fn, []):
            cmd2 += ['--replace-call-with-contract', g]
        cmd2 += ['--apply-loop-contracts', a, b]
        rc, so, se = run(cmd2)
        if rc != 0:
            return {'fn': fn, 'status': 'undecided', 'why': 'goto-instrument failed: ' + (so + se)[-3000:], 'obligations': [], 'seconds': time.time() - t0}
    flags = list(CBMC_FLAGS) + list(ent.get('cbmc_flags') or [])
    fallback = False
    if info.get('unc_closure', {}).get(fn, 0) > 0 and not ent.get('plain') and not ent.get('bounded') and not ent.get('loop_free') \
            and not any('unwind' in str(f) for f in (ent.get('cbmc_flags') or [])):
        # a loop of the (changed) source has no loop contract: no unbounded proof is possible; search for
        # violations up to a small depth instead (failures found are real, "no failure" proves nothing)
        flags += ['--unwind', '4', '--no-unwinding-assertions']
        fallback = True
    if solver:
        flags += ['--sat-solver', solver]
    cmd3 = ['cbmc', b, '--json-ui'] + flags
    rc, so, se = run(cmd3)
    for p in (a, b):
        if os.path.exists(p):
            os.remove(p)
    secs = time.time() - t0
    res = {'fn': fn, 'seconds': secs, 'cmd': ' && '.join(' '.join(c) for c in (cmd1, cmd2, cmd3)).replace(d + '/', ''), 'fallback': fallback}
    if rc == -9:
        res.update(status='undecided', why='solver timeout (%ds)' % TIMEOUT, obligations=[])
        return res
    try:
        js = json.loads(so)
    except Exception:
        res.update(status='undecided', why='cbmc output not JSON: ' + (so + se)[-2000:], obligations=[])
        return res
    obl = []
    errors = []
    solver_time = None
    for item in js:
        if 'result' in item:
            for r in item['result']:
                loc = r.get('sourceLocation', {})
                o = {'name': r.get('property'), 'desc': r.get('description'), 'status': r.get('status'),
                     'line': int(loc['line']) if 'line' in loc else None, 'function': loc.get('function')}
                if r.get('status') == 'FAILURE' and 'trace' in r:
                    o['trace'] = reduce_trace(r['trace'])
                obl.append(o)
        if item.get('messageType') == 'ERROR':
            errors.append(item.get('messageText'))
        if item.get('messageType') == 'STATUS-MESSAGE' and 'Runtime decision procedure' in item.get('messageText', ''):
            m = re.search(r'([\d.]+)s', item['messageText'])
            if m:
                solver_time = float(m.group(1))
    if not obl:
        res.update(status='undecided', why='cbmc produced no obligations: ' + '; '.join(map(str, errors))[-2000:] + se[-500:], obligations=[])
        return res
    res['obligations'] = obl
    res['solver_s'] = solver_time
    res['status'] = 'done'
    json.dump(res, open(resf, 'w'))
    return res


def render_val(v, depth=0):
    if not isinstance(v, dict):
        return v
    if 'data' in v:
        return v['data']
    if 'members' in v and depth < 4:
        return {m.get('name'): render_val(m.get('value'), depth + 1) for m in v['members']}
    if 'elements' in v and depth < 4:
        return [render_val(e.get('value'), depth + 1) for e in v['elements'][:8]]
    return v.get('name')


def reduce_trace(tr):
    out = []
    for st in tr:
        if st.get('stepType') == 'assignment' and not st.get('hidden'):
            lhs = st.get('lhs', '')
            if lhs.startswith('__') or lhs.startswith('dfcc') or 'return_value' in lhs or lhs.startswith('tmp_') or '$' in lhs \
                    or lhs in ('set', 'ptr', 'size', 'write_set_postconditions', 'write_set_to_link', 'idx', 'hash', 'object_id') or 'write_set' in lhs:
                continue
            if lhs.startswith('car.') or lhs.startswith('car_') or lhs in ('c', 'l', 'm', 'a', 'o', 'p', 'x', 'r'):
                continue
            v = st.get('value', {})
            val = render_val(v)
            loc = st.get('sourceLocation', {})
            out.append({'lhs': lhs, 'value': val, 'line': loc.get('line'), 'function': loc.get('function')})
        elif st.get('stepType') == 'failure':
            loc = st.get('sourceLocation', {})
            out.append({'failure': st.get('reason'), 'line': loc.get('line'), 'function': loc.get('function')})
    return out[-200:]


TAG_RE = re.compile(r'^\s*\[([^\]]*)\]')


def classify(info, fn, o):
    """-> (tags:list, kind:str, text:str) for one CBMC obligation of function fn"""
    desc = o.get('desc') or ''
    name = o.get('name') or ''
    lm = info['linemap'].get(str(o.get('line')))
    if lm is None and o.get('line') and ('loop_invariant' in name or 'loop_decreases' in name or 'loop_assigns' in name):
        for d in range(1, 6):
            c = info['linemap'].get(str(o['line'] + d))
            if c is not None and c['kind'] == 'loop_invariant':
                lm = c
                break
    m = TAG_RE.match(desc)
    if 'vf_reach' in desc:
        return ['__reach__'], 'reach', desc
    if m:
        return m.group(1).replace(',', ' ').split(), 'model-assertion', desc
    if lm is not None and ('postcondition' in name or 'precondition' in name or 'loop_invariant' in name
                           or 'ensures' in desc or 'requires' in desc or 'invariant' in desc or 'decreases' in desc):
        return list(lm['tags']), lm['kind'] + ('@' + lm['fn'] if lm['fn'] != fn else ''), (lm.get('text') or '') + ' :: ' + lm['expr']
    return [], 'safety', desc
