#!/usr/bin/env python3
"""mutscan.py <header-rel-to-gmlc> <prop> [n] -- developer tool: mechanical mutants (delete one
statement / negate one condition) of a header, each checked with the quick check of <prop> on a
scratch copy (VF_INNER: no evidence written).  Prints one line per mutant with the exit code:
1 = reported, 0 = NOT reported (equivalent mutant or a gap: look at it), 2 = undecided."""
import os, re, random, shutil, subprocess, sys, tempfile
rel, prop = sys.argv[1], sys.argv[2]
n = int(sys.argv[3]) if len(sys.argv) > 3 else 8
seed = int(sys.argv[4]) if len(sys.argv) > 4 else 7
V = os.path.dirname(os.path.dirname(os.path.abspath(__file__)))
src = open('/repo/gmlc/' + rel).read().split('\n')
KEY = re.compile(r'lock|unlock|\.store\(|notify|erase|push_back|emplace|set_value|clear\(\)|\+\+|--|std::move|swap|\.load\(|wait|= ')
cands = []
for i, ln in enumerate(src):
    t = ln.strip()
    if not t or t.startswith('//') or t.startswith('*') or t.startswith('#') or t.startswith('/*'):
        continue
    if '= delete' in t or '= default' in t or re.match(r'^[\w:<>,&\*\s~]+\([^)]*\)\s*(const)?\s*(noexcept)?\s*;$', t) and not re.search(r'[=.]|->', t):
        continue          # declarations: deleting them only breaks the build
    if re.match(r'^(if|while)\s*\(.*\)\s*\{?$', t) and KEY.search(t):
        cands.append((i, 'negate'))
    elif t.endswith(';') and KEY.search(t) and not re.match(r'^(return|using|typedef|template|class|struct|friend|static_assert|throw|break|continue)\b', t) \
            and '(' in t and not re.match(r'^[\w:<>,\s\*&]+\s+\w+\s*(\{[^}]*\})?;$', t) and not re.match(r'^(std::|typename|const|auto|bool|int|T\b|size_t)', t):
        cands.append((i, 'delete'))
# lines already covered by earlier scans (logs kept under benign/)
import glob
done = set()
for lg in glob.glob(os.path.join(V, 'benign', 'mutscan*.log')):
    for l in open(lg):
        mm = re.match(r'^(\S+):(\d+) (delete|negate) exit=', l)
        if mm and mm.group(1) == rel:
            done.add((int(mm.group(2)) - 1, mm.group(3)))
cands = [c for c in cands if c not in done]
if os.environ.get('VF_MUT_SWAP'):
    # operator: swap two adjacent simple statements of the same indentation (at least one sync-relevant)
    cands = []
    for i in range(len(src) - 1):
        a, b = src[i], src[i + 1]
        ta, tb = a.strip(), b.strip()
        if not (ta.endswith(';') and tb.endswith(';')) or len(a) - len(a.lstrip()) != len(b) - len(b.lstrip()) or len(a) - len(a.lstrip()) < 8:
            continue
        if any(re.match(r'^(return|using|typedef|template|break|continue|throw|else|case|default)\b', t) for t in (ta, tb)) or '//' in ta:
            continue
        if ta.count('(') != ta.count(')') or tb.count('(') != tb.count(')') or ta == tb:
            continue
        if (KEY.search(ta) or KEY.search(tb)) and (i, 'swap') not in done:
            cands.append((i, 'swap'))
random.seed(seed)
random.shuffle(cands)
for i, kind in cands[:n]:
    tmp = tempfile.mkdtemp(prefix='vf_mut_')
    try:
        shutil.copytree('/repo/gmlc', os.path.join(tmp, 'gmlc'))
        m = list(src)
        if kind == 'swap':
            m[i], m[i + 1] = m[i + 1], m[i]
        elif kind == 'delete':
            m[i] = re.match(r'^\s*', m[i]).group(0) + '/* mutant: deleted */;'
        else:
            mm = re.match(r'^(\s*)(if|while)\s*\((.*)\)(\s*\{?)$', m[i])
            m[i] = '%s%s (!(%s))%s' % (mm.group(1), mm.group(2), mm.group(3), mm.group(4))
        open(os.path.join(tmp, 'gmlc', rel), 'w').write('\n'.join(m))
        env = dict(os.environ, VF_REPO=tmp, VF_INNER='1', VF_CACHE=os.path.join(tmp, 'cache'))
        r = subprocess.run([sys.executable, os.path.join(V, 'bin', 'check'), prop, '--tier', 'quick'], env=env, capture_output=True, text=True)
        why = [l[:160] for l in (r.stdout + r.stderr).split('\n') if l.startswith('UNDECIDED') or l.startswith('INNER-FAIL')][:1]
        print('%s:%d %s exit=%d | %s | %s' % (rel, i + 1, kind, r.returncode, src[i].strip()[:90], why[0] if why else ''), flush=True)
    finally:
        shutil.rmtree(tmp, ignore_errors=True)
