#!/usr/bin/env python3
"""seedtest.py <seed-id> <property> <worktree> [extra props...]
Confirms a seeded change (tests pass with it; demo fails with it and passes without it), runs the
registered checks against /repo with the patch applied (undone afterwards), stores /verif/seeded/<id>/."""
import json, os, subprocess, sys, shutil, time
sid, prop, wt = sys.argv[1:4]
props = [prop] + sys.argv[4:]
V = '/verif'
out = os.path.join(V, 'seeded', sid)
os.makedirs(out, exist_ok=True)
seed = os.path.join(wt, 'seed')
patch = os.path.join(seed, 'patch.diff')
def sh(cmd, timeout=1800, cwd=None, env=None):
    r = subprocess.run(cmd, shell=True, capture_output=True, text=True, timeout=timeout, cwd=cwd, env=env)
    return r.returncode, (r.stdout + r.stderr)
ran = []
# 1. patch equals the worktree's diff and applies to /repo
rc, o = sh('git -C %s diff -- gmlc' % wt)
same = o.strip() == open(patch).read().strip()
rc_apply, o2 = sh('git -C /repo apply --check %s' % patch)
ran.append('git apply --check against /repo: rc=%d' % rc_apply)
# 2. existing tests with the change (worktree build)
rc_b, ob = sh('cmake --build %s/_build -j8 2>&1 | tail -2' % wt)
rc_t, ot = sh('ctest --test-dir %s/_build -j8 --timeout 900 2>&1 | tail -4' % wt)
ran.append('cmake --build + ctest in the worktree with the change: build rc=%d, ctest rc=%d: %s' % (rc_b, rc_t, ot.strip().split('\n')[-3:] ))
# 3. demo fails with change, passes without
demo = os.path.join(seed, 'demo.cpp')
extra = ''
readme = open(os.path.join(seed, 'README.txt')).read() if os.path.exists(os.path.join(seed, 'README.txt')) else ''
d = '/tmp/seedtest_%s' % sid
os.makedirs(d, exist_ok=True)
rc1, o1 = sh('g++ -std=c++17 -pthread -I%s %s -o %s/demo_changed && timeout 120 %s/demo_changed' % (wt, demo, d, d))
rc0, o0 = sh('g++ -std=c++17 -pthread -I/repo %s -o %s/demo_orig && timeout 120 %s/demo_orig' % (demo, d, d))
ran.append('demo against changed headers: exit %d; against /repo headers: exit %d' % (rc1, rc0))
shutil.rmtree(d, ignore_errors=True)
# 4. the registered checks against /repo with the patch applied
results = {}
if rc_apply == 0:
    shutil.copytree(os.path.join(V, 'evidence'), '/tmp/ev_backup_%s' % sid, dirs_exist_ok=True)
    sh('git -C /repo apply %s' % patch)
    try:
        for p in props:
            t0 = time.time()
            rc, o = sh('bin/check %s --tier quick' % p, cwd=V)
            lines = [l for l in o.split('\n') if l.startswith('VIOLATION') or l.startswith('UNDECIDED') or 'discharged' in l or l.startswith('KNOWN')]
            results[p] = {'exit': rc, 'lines': [l[:300] for l in lines[:6]], 'seconds': round(time.time() - t0, 1)}
    finally:
        sh('git -C /repo checkout -- .')
        # evidence files must describe runs on the unchanged tree: put them back
        shutil.rmtree(os.path.join(V, 'evidence'))
        shutil.copytree('/tmp/ev_backup_%s' % sid, os.path.join(V, 'evidence'))
        shutil.rmtree('/tmp/ev_backup_%s' % sid)
rc_clean, oc = sh('git -C /repo status --short')
meta = {
    'id': sid, 'property': prop, 'patch_matches_worktree_diff': same,
    'tests_pass_with_change': rc_t == 0 and rc_b == 0,
    'demo_fails_with_change': rc1 != 0, 'demo_passes_without_change': rc0 == 0,
    'what_it_needs_to_manifest': None,
    'what_i_ran': ran,
    'checks': results,
    'caught_by': [p for p, r in results.items() if r['exit'] == 1],
    'repo_clean_after': oc.strip() == '',
    'author_readme_excerpt': readme[:3000],
}
shutil.copy(patch, os.path.join(out, 'patch.diff'))
shutil.copy(demo, os.path.join(out, 'demo.cpp'))
json.dump(meta, open(os.path.join(out, 'meta.json'), 'w'), indent=1)
print(json.dumps({k: meta[k] for k in ('id', 'tests_pass_with_change', 'demo_fails_with_change', 'demo_passes_without_change', 'caught_by', 'repo_clean_after')}))
for p, r in results.items():
    print(p, r['exit'], r['lines'][:3])
