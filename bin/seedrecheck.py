#!/usr/bin/env python3
"""seedrecheck.py <seed-dir-name> <prop> [props...]
Re-runs the registered checks against /repo with an already confirmed seeded change applied
(undone afterwards; evidence files restored) and updates seeded/<id>/meta.json."""
import json, os, subprocess, sys, shutil, time
V = '/verif'
sid = sys.argv[1]
props = sys.argv[2:]
out = os.path.join(V, 'seeded', sid)
patch = os.path.join(out, 'patch.diff')
def sh(cmd, cwd=None):
    r = subprocess.run(cmd, shell=True, capture_output=True, text=True, cwd=cwd)
    return r.returncode, r.stdout + r.stderr
rc, o = sh('git -C /repo status --short')
assert o.strip() == '', '/repo not clean'
rc, o = sh('git -C /repo apply --check %s' % patch)
assert rc == 0, o
bk = '/tmp/ev_backup_%s' % sid
shutil.copytree(os.path.join(V, 'evidence'), bk, dirs_exist_ok=True)
results = {}
sh('git -C /repo apply %s' % patch)
try:
    for p in props:
        t0 = time.time()
        rc, o = sh('bin/check %s --tier quick' % p, cwd=V)
        lines = [l for l in o.split('\n') if l.startswith('VIOLATION') or l.startswith('UNDECIDED') or 'discharged' in l or l.startswith('KNOWN')]
        results[p] = {'exit': rc, 'lines': [l[:300] for l in lines[:6]], 'seconds': round(time.time() - t0, 1)}
finally:
    sh('git -C /repo checkout -- .')
    shutil.rmtree(os.path.join(V, 'evidence'))
    shutil.copytree(bk, os.path.join(V, 'evidence'))
    shutil.rmtree(bk)
meta = json.load(open(os.path.join(out, 'meta.json')))
meta.setdefault('rechecks', []).append({'when': time.strftime('%Y-%m-%d %H:%M'), 'checks': results})
meta['checks'].update(results)
meta['caught_by'] = sorted(p for p, r in meta['checks'].items() if r['exit'] == 1)
rc, o = sh('git -C /repo status --short')
meta['repo_clean_after'] = o.strip() == ''
json.dump(meta, open(os.path.join(out, 'meta.json'), 'w'), indent=1)
for p, r in results.items():
    print(p, r['exit'], r['lines'][:3])
