#!/bin/sh
# developer tool: run the checks named for a group against each stored behaviour-preserving patch
# usage: benignrun.sh <group> <props...>
cd "$(dirname "$0")/.."
g=$1; shift
for f in benign/${g}_*.diff; do
  echo "== $f"
  python3 bin/patchcheck.py $f "$@"
done
