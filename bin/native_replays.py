"""Native replayers: small C++ programs run against the real headers (sanitizers on)."""
import os
import subprocess
import tempfile
import shutil
import replay
from vflib import VERIF, REPO


def run_cpp(src, extra=(), timeout=120, tsan=False):
    d = tempfile.mkdtemp(prefix='vfreplay_', dir=os.path.join(VERIF, '.cache'))
    try:
        exe = os.path.join(d, 'a.out')
        san = '-fsanitize=thread' if tsan else '-fsanitize=address,undefined'
        cmd = ['clang++', '-std=c++17', '-g', '-O0', san, '-fno-sanitize-recover=all', '-I' + REPO, '-pthread',
               os.path.join(VERIF, 'replay', src), '-o', exe] + list(extra)
        c = subprocess.run(cmd, capture_output=True, text=True, timeout=timeout)
        if c.returncode != 0:
            return {'confirmed': False, 'log': 'replay program does not compile against the current headers:\n' + c.stderr[-2000:], 'cmd': ' '.join(cmd)}
        env = dict(os.environ, ASAN_OPTIONS='detect_leaks=0', UBSAN_OPTIONS='print_stacktrace=1')
        try:
            r = subprocess.run([exe], capture_output=True, text=True, timeout=timeout, env=env)
            rc, out = r.returncode, (r.stdout + r.stderr)
        except subprocess.TimeoutExpired:
            rc, out = -9, 'timeout (hang)'
        return {'confirmed': rc != 0, 'exit_status': rc, 'log': out[-4000:], 'cmd': ' '.join(cmd), 'source': 'replay/' + src}
    finally:
        shutil.rmtree(d, ignore_errors=True)


@replay.register(r'tripwire', r'TripWireTrigger__(dtor|ctor_move|op_assign_move)')
def tripwire_moved_from(info, fn, o):
    return run_cpp('tripwire_moved_from.cpp')


@replay.register(r'rcu', r'.*rcu_guard__unlock|.*_vf_payload__dtor')
def rcu_null_zombie(info, fn, o):
    r = run_cpp('rcu_null_zombie.cpp')
    return r


@replay.register(r'soh', r'.*removeObject__std_function.*')
def soh_remove_pred(info, fn, o):
    return run_cpp('soh_remove_pred.cpp')


@replay.register(r'delayed_destructor', r'DelayedDestructor(SingleThread)?_vf_obj__destroyObjects__void')
def dd_function_copy_throws(info, fn, o):
    return run_cpp('dd_function_copy_throws.cpp')
