#!/usr/bin/env python3
"""Regenerate /verif/MANIFEST.json from the specs (claimed = served by some unit)."""
import json, os, sys
sys.path.insert(0, os.path.dirname(os.path.abspath(__file__)))
import vflib
V = vflib.VERIF
props = [json.loads(l) for l in open(os.path.join(V, 'properties.jsonl'))]
served = {}
for u in vflib.all_units():
    spec = vflib.load_spec(u)
    for pat, ent in spec.FN.items():
        for e in (ent if isinstance(ent, list) else [ent]):
            for p in (e.get('props') or '').split():
                served.setdefault(p, set()).add(u)
TEXT = json.load(open(os.path.join(V, 'bin', 'manifest_texts.json')))
NA = TEXT['not_applicable']
checks = []
na = []
for p in props:
    pid = p['id']
    if pid in served and pid in TEXT['claimed']:
        t = TEXT['claimed'][pid]
        checks.append({
            'property_id': pid,
            'quick_cmd': 'bin/check %s --tier quick' % pid,
            'thorough_cmd': 'bin/check %s --tier thorough' % pid,
            'evidence_file': 'evidence/%s.json' % pid,
            'replay_cmd_template': 'cat {path}',
            'engine': 'cxx2c+cbmc-dfcc',
            'level_claimed': {'category': t.get('category', 'proof'), 'text': t['text'], 'design_ref': 'DESIGN.md section 6 (%s)' % pid},
            'level_note': t['note'],
            'technique': t.get('technique', 'contract-based deductive verification: CBMC code contracts (DFCC) on C lowered mechanically from the clang AST of the real headers'),
        })
    else:
        na.append({'property_id': pid, 'reason': NA.get(pid, 'check not built yet (see DESIGN.md section 10); not claimed')})
m = {
    'version': 1,
    'setup_cmd': 'bin/setup',
    'hooks': {'guard': 'GMLC_TDC_CONCURRENCY_VERIF', 'enable': 'no hooks: the checks read /repo/gmlc headers through clang -ast-dump=json; nothing in /repo is instrumented',
              'baseline_off_cmd': 'cmake --build /repo/_build && ctest --test-dir /repo/_build -j8 --timeout 900',
              'source_commits': TEXT.get('source_commits', []), 'add_only': True},
    'engines': [{'name': 'cxx2c+cbmc-dfcc', 'path': 'bin/check', 'serves_properties': sorted(c['property_id'] for c in checks),
                 'kind_free_text': 'clang-14 JSON AST -> mechanical lowering to C (lower/) -> contracts spliced from specs/ -> goto-instrument --dfcc --enforce-contract/--replace-call-with-contract/--apply-loop-contracts -> cbmc'}],
    'checks': checks,
    'notes': TEXT.get('notes', ''),
    'not_applicable': na,
}
json.dump(m, open(os.path.join(V, 'MANIFEST.json'), 'w'), indent=1)
print('claimed', [c['property_id'] for c in checks])
