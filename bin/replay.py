"""Replay files for failed obligations.  A native replay (real headers, sanitizers) is attempted
where a replayer is registered for the unit/function; otherwise the replay file carries the
verifier's output and the VIOLATION line ends with no-failing-input-found."""
import json
import os
import re
import subprocess
import vflib
from vflib import VERIF, REPO

NATIVE = []   # list of (unit regex, fn regex, callable(info, fn, obligation) -> dict(confirmed, log))


def register(unit_re, fn_re):
    def deco(f):
        NATIVE.append((unit_re, fn_re, f))
        return f
    return deco


def source_lines(fm):
    try:
        f, a = fm['loc'][0], int(fm['loc'][1])
        b = int(fm['end'][1]) if fm.get('end') and fm['end'] and fm['end'][0] == f else a + 25
        lines = open(f).read().split('\n')
        return ['%s:%d: %s' % (os.path.relpath(f, REPO), i, lines[i - 1]) for i in range(a, min(b, len(lines)) + 1)]
    except Exception as e:
        return ['<source unavailable: %s>' % e]


def write_replay(pid, info, fn, fails):
    """fails: list of (obligation, tags, kind, text) of one function.  One replay file per function;
    the first contract / model obligation is the headline, the rest are listed."""
    fm = next(f for f in info['meta']['functions'] if f['cname'] == fn)
    d = os.path.join(VERIF, 'replays', pid)
    os.makedirs(d, exist_ok=True)
    fails = sorted(fails, key=lambda t: (t[2] == 'safety', t[0]['name']))
    o, tags, kind, text = fails[0]
    path = os.path.join(d, re.sub(r'[^A-Za-z0-9_.-]', '_', '%s.%s.json' % (fn, o['name'])))
    native = None
    try:
        import native_replays  # noqa: F401  (registers replayers)
    except ImportError:
        pass
    for ur, fr, f in NATIVE:
        if re.fullmatch(ur, info['unit']) and re.fullmatch(fr, fn):
            try:
                native = f(info, fn, o)
            except Exception as e:  # a broken replayer must not hide the violation
                native = {'confirmed': False, 'log': 'replayer error: %r' % e}
            break
    src = info['srcmap'].get(str(o.get('line')))
    doc = {
        'property': pid, 'failed_obligation': o['name'], 'obligation_kind': kind, 'obligation_tags': tags,
        'obligation_text': text, 'cbmc_description': o.get('desc'),
        'other_failed_obligations': [{'name': x[0]['name'], 'kind': x[2], 'text': x[3][:300], 'cbmc_description': x[0].get('desc')} for x in fails[1:]],
        'function': fm['qualname'], 'c_function': fn, 'unit': info['unit'],
        'repo_source_of_function': source_lines(fm),
        'nearest_repo_line': '%s:%s' % tuple(src) if src else None,
        'verifier': 'cbmc 6.11 (goto-instrument --dfcc --enforce-contract %s)' % fn,
        'counterexample_state': o.get('trace', []),
        'native_replay': native,
        'note': 'the counterexample is a state in which one step of this function breaks the obligation; '
                'see DESIGN.md section 8 for which obligations have a deterministic native replay',
    }
    json.dump(doc, open(path, 'w'), indent=1)
    suffix = '' if (native and native.get('confirmed')) else 'no-failing-input-found'
    return path, suffix
