#!/usr/bin/env python3
"""patchcheck.py <patch.diff> <prop> [props...]
Developer tool: applies a patch to a scratch copy of /repo/gmlc (under /tmp, removed afterwards) and
runs the quick checks of the given properties against the copy (no evidence / replay files are
written: VF_INNER).  Prints the exit code per property: 0 held, 1 violation, 2 undecided."""
import os, shutil, subprocess, sys, tempfile
patch = os.path.abspath(sys.argv[1])
props = sys.argv[2:]
V = os.path.dirname(os.path.dirname(os.path.abspath(__file__)))
tmp = tempfile.mkdtemp(prefix='vf_patchcheck_')
try:
    shutil.copytree('/repo/gmlc', os.path.join(tmp, 'gmlc'))
    r = subprocess.run(['patch', '-p1', '-s', '--no-backup-if-mismatch', '-i', patch], cwd=tmp, capture_output=True, text=True)
    if r.returncode != 0:
        print('patch does not apply:', r.stdout[-300:], r.stderr[-300:]); sys.exit(3)
    for p in props:
        env = dict(os.environ, VF_REPO=tmp, VF_INNER='1', VF_CACHE=os.path.join(tmp, 'cache'))
        r = subprocess.run([sys.executable, os.path.join(V, 'bin', 'check'), p, '--tier', 'quick'], env=env, capture_output=True, text=True)
        und = [l[:400] for l in (r.stdout + r.stderr).split('\n') if l.startswith('UNDECIDED') or l.startswith('INNER-FAIL')][:4]
        print(p, 'exit', r.returncode, und if r.returncode != 0 else '')
        if r.returncode == 1:
            # list failing obligations (inner mode prints nothing): re-run the affected units verbosely is up to the developer
            pass
finally:
    shutil.rmtree(tmp, ignore_errors=True)
