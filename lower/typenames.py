"""C names for C++ types as clang prints them.  Purely syntactic and deterministic; a type
that is printed in a way this module does not canonicalise simply yields a struct name the
models do not define, which is a compile error (exit 2), never a wrong verdict."""
import re


class Unsupported(Exception):
    pass


SCALARS = {
    'void': 'void', 'bool': '_Bool', 'char': 'char', 'signed char': 'signed char',
    'unsigned char': 'unsigned char', 'short': 'short', 'unsigned short': 'unsigned short',
    'int': 'int', 'unsigned int': 'unsigned int', 'unsigned': 'unsigned int',
    'long': 'long', 'unsigned long': 'unsigned long', 'long long': 'long long',
    'unsigned long long': 'unsigned long long', 'std::size_t': 'unsigned long',
    'size_t': 'unsigned long', 'std::nullptr_t': 'void*', 'nullptr_t': 'void*',
    'double': 'double', 'float': 'float', 'std::memory_order': 'int',
    'enum std::memory_order': 'int', 'memory_order': 'int', 'std::ptrdiff_t': 'long',
}

# bare names that clang prints without their namespace inside template argument lists
_BARE = ['mutex', 'timed_mutex', 'shared_mutex', 'shared_timed_mutex', 'unique_lock',
         'lock_guard', 'shared_lock', 'atomic', 'shared_ptr', 'unique_ptr', 'allocator',
         'vector', 'function', 'promise', 'future', 'packaged_task', 'pair', 'string',
         'basic_string', 'map', 'less', 'char_traits', 'default_delete', 'ratio',
         'condition_variable', '__shared_ptr', '__atomic_base', 'allocator_traits']

# names of the driver's namespace vf that clang prints unqualified inside template arguments
VF_BARE = ['payload', 'fn_void', 'fn_val', 'cfn_void', 'cfn_val', 'pred', 'obj', 'key', 'callback']

# canonical spelling -> short alias (applied after qualification)
ALIASES = [
    (r'std::chrono::duration<long, std::ratio<1, 1000>>', 'vf::msec'),
    (r'std::chrono::duration<long, std::ratio<1, 1000> >', 'vf::msec'),
    (r'std::chrono::time_point<std::chrono::_V2::steady_clock, std::chrono::duration<long, std::ratio<1, 1000000000>>>', 'vf::tpoint'),
    (r'std::chrono::time_point<std::chrono::_V2::steady_clock, std::chrono::duration<long, std::ratio<1, 1000000000> > >', 'vf::tpoint'),
    (r'std::chrono::_V2::steady_clock::time_point', 'vf::tpoint'),
    (r'std::chrono::time_point<std::chrono::steady_clock, std::chrono::duration<long, std::ratio<1, 1000000000>>>', 'vf::tpoint'),
    (r'std::chrono::steady_clock::time_point', 'vf::tpoint'),
    (r'std::chrono::milliseconds', 'vf::msec'),
    (r'std::__cxx11::basic_string<char, std::char_traits<char>, std::allocator<char>>', 'std::string'),
    (r'std::__cxx11::basic_string<char>', 'std::string'),
    (r'std::basic_string<char>', 'std::string'),
    (r'std::atomic_bool', 'std::atomic<bool>'),
    (r'std::__atomic_base<int>', 'std::atomic<int>'),
    (r'std::__atomic_base<bool>', 'std::atomic<bool>'),
    (r'std::__atomic_base<unsigned short>', 'std::atomic<unsigned short>'),
    (r'std::__atomic_base<short>', 'std::atomic<short>'),
    (r'std::__atomic_base<unsigned char>', 'std::atomic<unsigned char>'),
    (r'std::__atomic_base<signed char>', 'std::atomic<signed char>'),
    (r'std::__atomic_base<unsigned int>', 'std::atomic<unsigned int>'),
    (r'std::__atomic_base<long>', 'std::atomic<long>'),
    (r'std::__atomic_base<unsigned long>', 'std::atomic<unsigned long>'),
]


def qualify(q):
    """Add the std:: prefix clang drops inside template-argument lists; normalise spaces."""
    q = re.sub(r'\s+', ' ', q).strip()
    q = q.replace('> >', '>>').replace('> >', '>>')
    for b in _BARE:
        q = re.sub(r'(?<![\w:])' + b + r'(?![\w])', 'std::' + b, q)
    for b in VF_BARE:
        q = re.sub(r'(?<![\w:])' + b + r'(?![\w])', 'vf::' + b, q)
    q = re.sub(r'(?<![\w:])chrono::', 'std::chrono::', q)
    for b in ('steady_clock', 'system_clock', 'duration', 'time_point'):
        q = re.sub(r'(?<![\w:])' + b + r'(?![\w])', 'std::chrono::' + b, q)
    q = q.replace('std::std::', 'std::')
    for a, b in ALIASES:
        q = q.replace(a.replace('> >', '>>'), b)
    return q


def strip_cv(q):
    q = q.strip()
    changed = True
    while changed:
        changed = False
        for kw in ('const ', 'volatile ', 'struct ', 'class ', 'typename ', 'enum '):
            if q.startswith(kw):
                q = q[len(kw):].strip()
                changed = True
        for kw in (' const', ' volatile', '*const', '&const', '*volatile'):
            if q.endswith(kw):
                q = q[:-len(kw.lstrip('*&'))].strip()
                changed = True
    return q


def split(q):
    """-> (base, nptr) where references count as one pointer level."""
    q = qualify(q)
    n = 0
    while True:
        q = strip_cv(q)
        if q.endswith('&&'):
            q = q[:-2]
            n += 1
        elif q.endswith('&') or q.endswith('*'):
            q = q[:-1]
            n += 1
        else:
            break
    # const in the middle: "const T" handled by strip_cv; "T const" too
    return strip_cv(q), n


def sanitize(base):
    s = base
    s = s.replace('gmlc::libguarded::', '').replace('gmlc::concurrency::', '')
    s = s.replace('vf::', 'vf_').replace('std::', 'std_')
    s = re.sub(r'\(lambda at [^)]*?([A-Za-z_]+)\.(?:hpp|cpp):(\d+):(\d+)\)', r'lambda_\1_\2_\3', s)
    s = re.sub(r'\bconst\b', '', s)
    s = re.sub(r'[^A-Za-z0-9_]+', '_', s).strip('_')
    s = re.sub(r'__+', '_', s)
    return s


def is_class(base):
    return base not in SCALARS


def cname(base):
    return sanitize(base)


def ctype_of(q):
    base, n = split(q)
    if base in SCALARS:
        return SCALARS[base] + '*' * n
    if '(' in base.split('<')[0] and 'lambda at' not in base:
        raise Unsupported('function type ' + q)
    return 'struct ' + cname(base) + '*' * n


def split_targs(s):
    """'a<b, c<d, e>>' -> ('a', ['b','c<d, e>'])"""
    i = s.find('<')
    if i < 0 or not s.endswith('>'):
        return s, []
    head = s[:i]
    body = s[i + 1:-1]
    out = []
    depth = 0
    cur = ''
    for ch in body:
        if ch in '<(':
            depth += 1
        elif ch in '>)':
            depth -= 1
        if ch == ',' and depth == 0:
            out.append(cur.strip())
            cur = ''
        else:
            cur += ch
    if cur.strip():
        out.append(cur.strip())
    return head, out
