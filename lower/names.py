"""Map the deterministic C names cxx2c generates for std:: entities to the model functions
in /verif/models (DESIGN.md: `lower/stdmap`).  A generated name that has no entry here stays
undefined, which the runner reports as exit 2 (no model), never as a verdict."""

MUTEXES = ['std_mutex', 'std_timed_mutex', 'std_shared_mutex', 'std_shared_timed_mutex']


def names_h():
    o = []
    d = lambda a, b: o.append('#define %s %s' % (a, b))
    for M in MUTEXES:
        d(M, 'vf_mutex')
        d(M + '__lock__0', 'vf_mutex_lock')
        d(M + '__unlock__0', 'vf_mutex_unlock')
        d(M + '__try_lock__0', 'vf_mutex_try_lock')
        d(M + '__lock_shared__0', 'vf_mutex_lock_shared')
        d(M + '__unlock_shared__0', 'vf_mutex_unlock_shared')
        d(M + '__try_lock_shared__0', 'vf_mutex_try_lock_shared')
        d(M + '__try_lock_for__1(m, t)', 'vf_mutex_try_lock_timed(m)')
        d(M + '__try_lock_until__1(m, t)', 'vf_mutex_try_lock_timed(m)')
        d(M + '__try_lock_shared_for__1(m, t)', 'vf_mutex_try_lock_shared_timed(m)')
        d(M + '__try_lock_shared_until__1(m, t)', 'vf_mutex_try_lock_shared_timed(m)')
        d(M + '__dtor', 'vf_mutex_dtor')
        d(M + '__ctor', 'vf_mutex_ctor')
        for L, p in (('std_unique_lock_' + M, 'vf_ulock'), ('std_shared_lock_' + M, 'vf_slock')):
            d(L, 'vf_lock')
            d(L + '__ctor', p + '_ctor')
            d(L + '__ctor__mutex_type_ref', p + '_ctor_lock')
            d(L + '__ctor__mutex_type_ref_std_try_to_lock_t', p + '_ctor_try')
            d(L + '__ctor__mutex_type_ref_std_defer_lock_t', p + '_ctor_defer')
            d(L + '__ctor__mutex_type_ref_vf_msec_ref', p + '_ctor_for')
            d(L + '__ctor__mutex_type_ref_vf_tpoint_ref', p + '_ctor_until')
            d(L + '__ctor_move', p + '_ctor_move')
            d(L + '__dtor', p + '_dtor')
            d(L + '__op_assign__1', p + '_assign')
            d(L + '__lock__0', p + '_lock')
            d(L + '__unlock__0', p + '_unlock')
            d(L + '__try_lock__0', p + '_try_lock')
            d(L + '__try_lock_for__1(l, t)', p + '_try_lock_timed(l)')
            d(L + '__try_lock_until__1(l, t)', p + '_try_lock_timed(l)')
            d(L + '__owns_lock__0', 'vf_lock_owns')
            d(L + '__op_bool__0', 'vf_lock_owns')
            d(L + '__op_conv__0', 'vf_lock_owns')
            d(L + '__mutex__0', 'vf_lock_mutex')
            d(L + '__swap__1', 'vf_lock_swap')
            d(L + '__release__0', 'vf_lock_release')
        SL = 'std_scoped_lock_' + M           # scoped_lock over ONE mutex = lock_guard
        d(SL, 'vf_lock')
        d(SL + '__ctor__%s_ref' % M, 'vf_guard_ctor')
        d(SL + '__ctor__mutex_type_ref', 'vf_guard_ctor')
        d(SL + '__dtor', 'vf_guard_dtor')
        G = 'std_lock_guard_' + M
        d(G, 'vf_lock')
        d(G + '__ctor__mutex_type_ref', 'vf_guard_ctor')
        d(G + '__dtor', 'vf_guard_dtor')
    d('std_condition_variable', 'vf_cv')
    d('std_condition_variable__wait__1', 'vf_cv_wait')
    d('std_condition_variable__wait_for__2(c,l,d)', 'vf_cv_wait_timed(c,l)')
    d('std_condition_variable__wait_until__2(c,l,d)', 'vf_cv_wait_timed(c,l)')
    d('std_condition_variable__notify_all__0', 'vf_cv_notify_all')
    d('std_condition_variable__notify_one__0', 'vf_cv_notify_one')
    d('std_condition_variable__dtor(c)', '((void)0)')
    d('std_condition_variable__ctor(c)', '((void)0)')
    for A, p, t in (('std_atomic_int', 'vf_aint', 'int'), ('std_atomic_bool', 'vf_abool', '_Bool')):
        d(A, 'vf_atomic_' + ('int' if t == 'int' else 'bool'))
        d(A + '__load__1', p + '_load')
        d(A + '__store__2', p + '_store')
        d(A + '__exchange__2', p + '_exchange')
        d(A + '__op_conv__0(a)', p + '_load(a, VF_MO_SEQ_CST)')
        d(A + '__op_assign__1', p + '_assign')
        d(A + '__ctor__%s(a,x)' % ('int' if t == 'int' else 'bool'), '((a)->v = (x))')
        d(A + '__ctor(a)', '((void)0)')
        d(A + '__ctor__integral_type(a,x)', '((a)->v = (x))')
        d(A + '__op_bool__0(a)', p + '_load(a, VF_MO_SEQ_CST)')
        d(A + '__dtor(a)', '((void)0)')
    for N in ('unsigned_short', 'short', 'unsigned_char', 'signed_char', 'unsigned_int', 'long', 'unsigned_long'):
        A = 'std_atomic_' + N
        p = 'vf_a_' + N
        d(A, 'vf_atomic_' + N)
        d(A + '__load__1', p + '_load')
        d(A + '__store__2', p + '_store')
        d(A + '__exchange__2', p + '_exchange')
        d(A + '__op_conv__0(a)', p + '_load(a, VF_MO_SEQ_CST)')
        d(A + '__op_assign__1', p + '_assign')
        d(A + '__ctor(a)', '((void)0)')
        d(A + '__ctor__integral_type(a,x)', '((a)->v = (x))')
        d(A + '__dtor(a)', '((void)0)')
        d(A + '__op_inc__0(a)', '(%s_fetch_add(a, 1, VF_MO_SEQ_CST) + 1)' % p)
        d(A + '__op_dec__0(a)', '(%s_fetch_add(a, -1, VF_MO_SEQ_CST) - 1)' % p)
        d(A + '__post_op_inc__0(a)', '%s_fetch_add(a, 1, VF_MO_SEQ_CST)' % p)
        d(A + '__post_op_dec__0(a)', '%s_fetch_add(a, -1, VF_MO_SEQ_CST)' % p)
        d(A + '__fetch_add__2(a,x,mo)', '%s_fetch_add(a, (long)(x), mo)' % p)
        d(A + '__fetch_sub__2(a,x,mo)', '%s_fetch_add(a, -(long)(x), mo)' % p)
    d('std_atomic_int__op_inc__0', 'vf_aint_preinc')
    d('std_atomic_int__op_dec__0', 'vf_aint_predec')
    d('std_atomic_int__post_op_inc__0', 'vf_aint_postinc')
    d('std_atomic_int__post_op_dec__0', 'vf_aint_postdec')
    d('std_atomic_int__fetch_add__2', 'vf_aint_fetch_add')
    d('std_atomic_int__fetch_sub__2(a,x,mo)', 'vf_aint_fetch_add(a,-(x),mo)')
    return '\n'.join(o) + '\n'


if __name__ == '__main__':
    print(names_h())
