"""Load clang-14 `-ast-dump=json` output (several concatenated documents) and
reconstruct the delta-encoded source locations (file/line are only present when they
change, in document order)."""
import json


def load_docs(path):
    s = open(path).read()
    dec = json.JSONDecoder()
    i = 0
    docs = []
    n = len(s)
    while i < n:
        while i < n and s[i] in ' \n\r\t':
            i += 1
        if i >= n:
            break
        if s[i] != '{':
            j = s.find('\n', i)
            i = j + 1 if j >= 0 else n
            continue
        o, j = dec.raw_decode(s, i)
        docs.append(o)
        i = j
    return docs


class SrcMap:
    """Carries clang's 'last printed file / line' state forward."""

    def __init__(self):
        self.file = None
        self.line = None

    def _one(self, loc):
        if not isinstance(loc, dict):
            return None
        if 'spellingLoc' in loc or 'expansionLoc' in loc:
            r = None
            if 'spellingLoc' in loc:
                self._one(loc['spellingLoc'])
            if 'expansionLoc' in loc:
                r = self._one(loc['expansionLoc'])
            return r
        if 'file' in loc:
            self.file = loc['file']
        if 'line' in loc:
            self.line = loc['line']
        if 'offset' not in loc:
            return None
        return (self.file, self.line, loc.get('col'))

    def annotate(self, node):
        """Depth-first in document order; stores node['_loc']=(file,line,col)."""
        if not isinstance(node, dict):
            return
        here = None
        if 'loc' in node:
            here = self._one(node['loc'])
        rng = node.get('range')
        if isinstance(rng, dict):
            b = self._one(rng.get('begin'))
            e = self._one(rng.get('end'))
            node['_begin'] = b
            node['_end'] = e
            if here is None:
                here = b
        if here is not None:
            node['_loc'] = here
        for c in node.get('inner', []) or []:
            self.annotate(c)


def load(path):
    docs = load_docs(path)
    sm = SrcMap()
    for d in docs:
        sm.annotate(d)
    return docs
