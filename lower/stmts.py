"""Statement and function-level lowering for cxx2c."""
import re
from typenames import Unsupported, qualify, split, sanitize
from cxx2c import kids, qt, fsig_params
from fnlower import FnLower, deref, arrow, CAST_KINDS


class FnLowerS(FnLower):
    # ------------------------------------------------------------------ statements
    def block(self, n, scope_kind='block'):
        self.emit('{')
        self.ind += 1
        self.push_scope(scope_kind)
        if n.get('kind') == 'CompoundStmt':
            for c in kids(n):
                self.stmt(c)
        else:
            self.stmt(n)
        self.pop_scope(run=not self.dead)
        self.dead = False
        self.ind -= 1
        self.emit('}')

    def stmt(self, n):
        k = n['kind']
        ks = kids(n)
        self.count(n)
        if self.dead and k not in ('LabelStmt',):
            # unreachable code after return/break/throw in the same block: still lower it (it is
            # real source), C allows it
            self.dead = False
        self.loc_comment(n)
        if k == 'CompoundStmt':
            return self.block(n)
        if k == 'DeclStmt':
            for v in ks:
                if v['kind'] == 'VarDecl':
                    self.vardecl(v)
                elif v['kind'] in ('TypeAliasDecl', 'TypedefDecl', 'StaticAssertDecl', 'UsingDecl', 'UsingDirectiveDecl'):
                    pass
                else:
                    raise Unsupported('DeclStmt of ' + v['kind'])
            return
        if k == 'NullStmt':
            self.emit(';')
            return
        if k == 'IfStmt':
            has_else = n.get('hasElse')
            idx = 0
            self.emit('{')
            self.ind += 1
            self.push_scope('block')
            if n.get('hasInit'):
                self.stmt(ks[idx])
                idx += 1
            if n.get('hasVar'):
                self.stmt(ks[idx])
                idx += 1
            self.push_frame()
            c = self.rv(ks[idx])
            if self.frames[-1]:
                t = self.fresh('c')
                self.emit('_Bool %s = (%s) != 0;' % (t, c))
                c = t
            self.pop_frame()
            self.emit('if (%s)' % c)
            self.block(ks[idx + 1])
            if len(ks) > idx + 2:
                self.emit('else')
                self.block(ks[idx + 2])
            self.pop_scope()
            self.ind -= 1
            self.emit('}')
            return
        if k == 'WhileStmt':
            return self.loop(cond=ks[0], body=ks[1])
        if k == 'DoStmt':
            return self.loop(cond=ks[1], body=ks[0], do=True)
        if k == 'ForStmt':
            # inner: init, condvar, cond, inc, body  (empty dicts are dropped by kids(); use raw)
            raw = n.get('inner')
            init, condvar, cond, inc, body = raw
            self.emit('{')
            self.ind += 1
            self.push_scope('block')
            if init:
                self.stmt(init)
            self.loop(cond=cond or None, body=body, inc=inc or None)
            self.pop_scope()
            self.ind -= 1
            self.emit('}')
            return
        if k == 'CXXForRangeStmt':
            raw = n.get('inner')
            # init, range, begin, end, cond, inc, loopvar, body
            init, rng, beg, end, cond, inc, loopvar, body = raw
            # the compiler-internal __range/__begin/__end variables get stable names (loop ordinal)
            for st, nm in ((rng, 'vf_range'), (beg, 'vf_begin'), (end, 'vf_end')):
                for v in kids(st):
                    if v.get('kind') == 'VarDecl':
                        self.rename[v['id']] = '%s%d' % (nm, self.loopn)
            self.emit('{')
            self.ind += 1
            self.push_scope('block')
            if init:
                self.stmt(init)
            self.stmt(rng)
            self.stmt(beg)
            self.stmt(end)
            self.loop(cond=cond, body=body, inc=inc, loopvar=loopvar)
            self.pop_scope()
            self.ind -= 1
            self.emit('}')
            return
        if k == 'ReturnStmt':
            return self.ret(n)
        if k == 'BreakStmt':
            for c in self.cleanup_lines('loop'):
                self.emit(c)
            self.emit('break;')
            self.dead = True
            return
        if k == 'ContinueStmt':
            for c in self.cleanup_lines('loop'):
                self.emit(c)
            lbl = None
            for s in reversed(self.scopes):
                if s['kind'] == 'loop':
                    lbl = s.get('cont')
                    break
            if lbl:
                self.emit('goto %s;' % lbl)
                self.used_labels.add(lbl)
            else:
                self.emit('continue;')
            self.dead = True
            return
        if k == 'CXXTryStmt':
            return self.try_stmt(n)
        if k == 'CXXThrowExpr':
            return self.throw(n)
        if k == 'CXXDeleteExpr':
            self.push_frame()
            self.delete_stmt(n)
            self.pop_frame()
            return
        if k == 'ExprWithCleanups' and ks and ks[0].get('kind') in ('CXXThrowExpr', 'CXXDeleteExpr'):
            self.push_frame()
            self.stmt(ks[0])
            if not self.dead:
                self.pop_frame()
            else:
                self.frames.pop()
            return
        if k.endswith('Expr') or k.endswith('Operator') or k.endswith('Literal') or k == 'ExprWithCleanups':
            self.push_frame()
            self.discard(n)
            self.pop_frame()
            return
        raise Unsupported('statement ' + k)

    def loop(self, cond, body, do=False, inc=None, loopvar=None):
        lid = self.loopn
        self.loopn += 1
        cont = self.label('cont') if (inc is not None or do) else None
        self.emit('while (1)')
        self.emit('/*@LOOP %s.%d@*/' % (self.f.cname, lid))
        self.emit('{')
        self.ind += 1
        self.push_scope('loop', cont=cont)
        if not do and cond is not None:
            self.cond_break(cond)
        if loopvar is not None:
            self.stmt(loopvar)
        self.block(body)
        if cont:
            if cont in self.used_labels or True:
                self.emit('%s: ;' % cont)
        if inc is not None:
            self.push_frame()
            self.discard(inc)
            self.pop_frame()
        if do and cond is not None:
            self.cond_break(cond)
        self.pop_scope()
        self.ind -= 1
        self.emit('}')
        self.emit('/*@AFTERLOOP %s.%d@*/' % (self.f.cname, lid))
        self.dead = False

    def cond_break(self, cond):
        self.push_frame()
        c = self.rv(cond)
        if self.frames[-1]:
            t = self.fresh('c')
            self.emit('_Bool %s = (%s) != 0;' % (t, c))
            c = t
        self.pop_frame()
        self.emit('if (!(%s)) break;' % c)

    def vardecl(self, v):
        q = qt(v)
        name = self.rename.get(v['id']) or self.cvar(v['name'])
        ks = kids(v)
        init = ks[0] if ks else None
        sc = v.get('storageClass')
        if sc == 'static':
            return self.static_local(v)
        isref = qualify(q).rstrip().endswith('&')
        if isref:
            self.push_frame()
            p = self.lv(init)
            self.emit('%s %s = %s;' % (self.L.ctype(q), name, p))
            # lifetime-extended temporaries were registered in the scope by lv()
            self.pop_frame()
            self.varmap[v['id']] = ('ptr', name)
            return
        if self.L.is_class(q):
            if v.get('nrvo') and self.ret_kind == 'class':
                self.varmap[v['id']] = ('ptr', 'vf_ret')
                self.push_frame()
                if init is not None:
                    self.into(init, 'vf_ret')
                self.pop_frame()
                self.reg_dtor(q, 'vf_ret', 'scope', nrvo_id=v['id'])
                self.nrvo_ids.add(v['id'])
                return
            self.emit('%s %s;' % (self.L.ctype(q), name))
            self.varmap[v['id']] = ('val', name)
            self.push_frame()
            if init is not None:
                self.into(init, '&' + name)
            self.pop_frame()
            self.reg_dtor(q, '&' + name, 'scope')
            return
        self.varmap[v['id']] = ('val', name)
        if init is None:
            self.emit('%s %s;' % (self.L.ctype(q), name))
            return
        self.push_frame()
        e = self.rv(init)
        self.emit('%s %s = %s;' % (self.L.ctype(q), name, e))
        self.pop_frame()

    def static_local(self, v):
        q = qt(v)
        ks = kids(v)
        gname = 'vf_static_%s_%s' % (self.f.cname, v['name'])
        self.L.static_vars[v['id']] = gname
        self.L.static_defs.append('%s %s; _Bool %s_guard;' % (self.L.ctype(q), gname, gname))
        self.emit('if (!%s_guard) {' % gname)
        self.ind += 1
        self.push_frame()
        if ks:
            if self.L.is_class(q):
                self.into(ks[0], '&' + gname)
            else:
                self.emit('%s = %s;' % (gname, self.rv(ks[0])))
        self.pop_frame()
        self.emit('%s_guard = 1;' % gname)
        self.ind -= 1
        self.emit('}')

    def ret(self, n):
        ks = kids(n)
        skip = None
        self.push_frame()
        if ks:
            e = ks[0]
            if self.ret_kind == 'class':
                inner = e
                while inner.get('kind') in ('ExprWithCleanups', 'CXXBindTemporaryExpr', 'ParenExpr') or \
                        (inner.get('kind') in CAST_KINDS and inner.get('castKind') == 'NoOp'):
                    inner = kids(inner)[0]
                src = None
                if inner.get('kind') == 'CXXConstructExpr' and len(kids(inner)) == 1:
                    a = kids(inner)[0]
                    while a.get('kind') in CAST_KINDS or a.get('kind') == 'ParenExpr':
                        a = kids(a)[0]
                    if a.get('kind') == 'DeclRefExpr' and a['referencedDecl']['id'] in self.nrvo_ids:
                        src = a['referencedDecl']['id']
                if src is not None:
                    skip = src
                else:
                    self.into(e, 'vf_ret')
            elif self.ret_kind == 'ref':
                self.emit('vf_retval = %s;' % self.lv(e))
            elif self.ret_kind == 'void':
                self.discard(e)
            else:
                self.emit('vf_retval = %s;' % self.rv(e))
        for c in self.cleanup_lines('ret', skip_nrvo=skip):
            self.emit(c)
        self.frames.pop()
        self.emit('goto vf_out;')
        self.dead = True

    def try_stmt(self, n):
        ks = kids(n)
        body = ks[0]
        handlers = ks[1:]
        if len(handlers) != 1:
            raise Unsupported('try with %d handlers' % len(handlers))
        h = handlers[0]
        hk = kids(h)
        # catch (...) has a single child (the body); a typed catch has a VarDecl first
        if len(hk) != 1 or hk[0].get('kind') != 'CompoundStmt':
            raise Unsupported('typed catch clause')
        lcatch = self.label('catch')
        lend = self.label('endtry')
        self.push_scope('try', label=lcatch)
        self.block(body)
        self.pop_scope()
        self.emit('goto %s;' % lend)
        self.emit('%s: ;' % lcatch)
        self.emit('{')
        self.ind += 1
        caught = self.fresh('caught')
        self.emit('int %s = vf_exc; vf_exc = 0;' % caught)
        self.caught_stack.append(caught)
        self.dead = False
        self.block(hk[0])
        self.caught_stack.pop()
        self.ind -= 1
        self.emit('}')
        self.emit('%s: ;' % lend)
        self.dead = False

    def throw(self, n):
        ks = kids(n)
        if not ks:
            if not self.caught_stack:
                raise Unsupported('rethrow outside handler')
            self.emit('vf_exc = %s;' % self.caught_stack[-1])
        else:
            # throw expr: evaluate the operand for effects, raise the abstract exception
            self.push_frame()
            q = qt(ks[0])
            if self.L.is_class(q):
                t = self.fresh('exc')
                self.emit('%s %s;' % (self.L.ctype(q), t))
                self.into(ks[0], '&' + t)
            else:
                self.discard(ks[0])
            self.pop_frame()
            self.emit('vf_exc = 1;')
        for c in self.cleanup_lines('exc'):
            self.emit(c)
        self.emit('goto %s;' % self.exc_target())
        self.uses_exc_out = True
        self.dead = True

    # ------------------------------------------------------------------ whole function
    def lower(self):
        f = self.f
        n = f.node
        L = self.L
        self.dead = False
        self.used_labels = set()
        self.nrvo_ids = set()
        self.uses_exc_out = False
        kind = n['kind']
        ftype = n['type']['qualType']
        params_q, rest = fsig_params(ftype)
        self.noexcept = 'noexcept' in rest
        retq = L.fn_ret_q(f)
        cparams = []
        rb, rn = split(retq)
        if kind in ('CXXConstructorDecl', 'CXXDestructorDecl'):
            self.ret_kind = 'void'
        elif qualify(retq).rstrip().endswith('&'):
            self.ret_kind = 'ref'
        elif L.is_class(retq):
            self.ret_kind = 'class'
        elif L.ctype(retq) == 'void':
            self.ret_kind = 'void'
        else:
            self.ret_kind = 'scalar'
        if self.ret_kind == 'class':
            cparams.append('%s* vf_ret' % L.ctype(retq))
        rec = f.rec
        if self.closure is not None:
            crec = self.closure
            cparams.append('struct %s* vf_c' % crec.cname)
            # captures
            for i, (fd, cap) in enumerate(zip(crec.fields, crec.captures)):
                fq = qt(fd)
                isref = qualify(fq).rstrip().endswith('&')
                if cap == 'this':
                    self.this_expr = 'vf_c->cap%d' % i
                else:
                    if isref:
                        self.varmap[cap] = ('ptr', 'vf_c->cap%d' % i)
                    else:
                        self.varmap[cap] = ('val', 'vf_c->cap%d' % i)
        elif f.is_method and not f.is_static:
            cparams.append('struct %s* self' % rec.cname)
        pnodes = [c for c in kids(n) if c.get('kind') == 'ParmVarDecl']
        for p in pnodes:
            cparams.append(self.declare_param(p))
        self.cparams = cparams
        if self.ret_kind == 'class' or self.ret_kind == 'void':
            crt = 'void'
        elif self.ret_kind == 'ref':
            crt = L.ctype(retq)
        else:
            crt = L.ctype(retq)
        self.crt = crt
        self.push_scope('fn')
        if kind == 'CXXConstructorDecl':
            self.push_scope('ctor_members')
            self.ctor_inits(n, rec)
            if rec is not None and rec.node.get('definitionData', {}).get('isPolymorphic'):
                # the constructor installs the dynamic type (after the base-class constructors ran)
                self.emit('((struct %s*)self)->vf_vtag = VF_TAG_%s;' % (L.poly_root(rec).cname, rec.cname))
        self.block(f.body)
        if kind == 'CXXDestructorDecl':
            self.member_dtors(rec)
        body_lines = self.lines
        out = []
        proto = '%s %s(%s)' % (crt, f.cname, ', '.join(cparams) if cparams else 'void')
        out.append('/* %s  [%s:%s] */' % (L.fn_qualname(f), (n.get('_loc') or ('?', 0))[0], (n.get('_loc') or ('?', 0))[1]))
        out.append(proto)
        out.append('/*@CONTRACT %s@*/' % f.cname)
        out.append('{')
        if crt != 'void':
            out.append('  %s vf_retval;' % crt)
        out.extend(body_lines)
        out.append('  goto vf_out;')
        out.append('vf_exc_out: ;')
        if kind == 'CXXConstructorDecl':
            pass
        if self.noexcept:
            out.append('  __CPROVER_assert(0, "[noexcept] exception escapes noexcept function %s: std::terminate");' % f.cname)
        out.append('vf_out: ;')
        out.append('  return%s;' % (' vf_retval' if crt != 'void' else ''))
        out.append('}')
        self.proto = proto
        return '\n'.join(out)

    def ctor_inits(self, n, rec):
        inits = [c for c in kids(n) if c.get('kind') == 'CXXCtorInitializer']
        for ci in inits:
            ks = kids(ci)
            if 'anyInit' in ci:
                fd = ci['anyInit']
                fdecl = self.L.by_id.get(fd['id'], fd)
                e = ks[0]
                self.loc_comment(e)
                self.push_frame()
                if e.get('kind') == 'CXXDefaultInitExpr':
                    fk = kids(fdecl)
                    fk = [c for c in fk if not c.get('kind', '').endswith('Comment')]
                    if not fk:
                        raise Unsupported('default member initialiser not found for ' + fd['name'])
                    e = fk[0]
                self.init_field('self', fdecl, e)
                self.pop_frame()
                self.reg_dtor(qt(fdecl), '&self->' + fd['name'], 'scope')
            elif 'baseInit' in ci:
                bq = ci['baseInit'].get('desugaredQualType') or ci['baseInit']['qualType']
                self.push_frame()
                self.into(ks[0], '((%s*)self)' % self.L.ctype(bq))
                self.pop_frame()
                self.reg_dtor(bq, '((%s*)self)' % self.L.ctype(bq), 'scope')
            else:
                raise Unsupported('ctor initializer kind')

    def member_dtors(self, rec):
        for fd in reversed(rec.fields):
            q = qt(fd)
            if self.L.needs_dtor(q):
                self.emit('  %s__dtor(&self->%s);' % (self.L.class_cname(q), fd['name']))
                self.calls.add(self.L.class_cname(q) + '__dtor')
        for b in reversed(rec.bases):
            bq = b['type'].get('desugaredQualType') or b['type']['qualType']
            if self.L.needs_dtor(bq):
                self.emit('  %s__dtor((%s*)self);' % (self.L.class_cname(bq), self.L.ctype(bq)))
                self.calls.add(self.L.class_cname(bq) + '__dtor')
