#!/usr/bin/env python3
"""cxx2c — print clang's typed AST of the instantiated gmlc:: functions as C.

Input : clang-14 `-Xclang -ast-dump=json -Xclang -ast-dump-filter=gmlc` of a driver TU.
Output: C text (structs, prototypes, one C function per C++ function) with
        /*@CONTRACT f@*/ and /*@LOOP f.k@*/ markers, plus a JSON side table.

The lowering never guesses: any AST node kind, cast kind or construct it has no rule for
raises Unsupported (exit 2 in the caller).  See DESIGN.md section 2.1 / 3.
"""
import json
import re
import sys
import os

sys.path.insert(0, os.path.dirname(os.path.abspath(__file__)))
from astload import load  # noqa: E402
from typenames import (Unsupported, SCALARS, qualify, split, sanitize, cname, ctype_of,  # noqa: E402
                       split_targs, strip_cv)

OPNAMES = {
    'operator=': 'op_assign', 'operator()': 'op_call', 'operator*': 'op_deref',
    'operator->': 'op_arrow', 'operator==': 'op_eq', 'operator!=': 'op_ne',
    'operator++': 'op_inc', 'operator--': 'op_dec', 'operator[]': 'op_index',
    'operator<': 'op_lt', 'operator!': 'op_not', 'operator+': 'op_plus',
    'operator-': 'op_minus', 'operator+=': 'op_add_assign', 'operator-=': 'op_sub_assign',
    'operator bool': 'op_bool', 'operator<<': 'op_shl', 'operator>': 'op_gt',
    'operator<=': 'op_le', 'operator>=': 'op_ge', 'operator&': 'op_addr',
}

# external (std / vf) class types that are trivially copyable & destructible: copies are
# C struct assignments, default construction and destruction are no-ops.
TRIVIAL_EXT = [
    r'^std_try_to_lock_t$', r'^std_defer_lock_t$', r'^std_adopt_lock_t$', r'^vf_msec$',
    r'^vf_tpoint$', r'^std_true_type$', r'^std_false_type$', r'^std_integral_constant_.*$',
    r'^std_nothrow_t$', r'^std_allocator_.*$', r'^std_less_.*$', r'^std_chrono_.*$',
    r'^std_allocator_arg_t$', r'^std_default_delete_.*$', r'^std_Rb_tree_(const_)?iterator_.*$', r'^gnu_cxx_normal_iterator.*$',
    r'^std_initializer_list_.*$',
]
# external class types without a destructor worth calling (atomics, iterators …)
NODTOR_EXT = TRIVIAL_EXT + [
    r'^std_atomic_.*$', r'^vf_.*_iterator$', r'^std_.*iterator.*$', r'^gnu_cxx_normal_iterator.*$',
    r'^vf_fn_.*$', r'^vf_cfn_.*$', r'^vf_pred.*$',
]

IDENTITY_FUNCS = {'move', 'forward', 'addressof_ref', 'as_const', 'move_if_noexcept'}

C_RESERVED = {'self', 'vf_ret', 'restrict', 'register', 'auto', 'inline', 'typeof', 'asm',
              'signed', 'unsigned', 'default', 'union', 'extern', 'new', 'delete'}


def kids(n):
    return [c for c in (n.get('inner') or []) if isinstance(c, dict) and c.get('kind')]


def qt(n):
    t = n.get('type') or {}
    return t.get('desugaredQualType') or t.get('qualType') or ''


def matches(pats, s):
    return any(re.match(p, s) for p in pats)


def fsig_params(q):
    """'R (A, B) const noexcept' -> (['A','B'], quals)"""
    i = q.find('(')
    depth = 0
    j = i
    for j in range(i, len(q)):
        if q[j] == '(':
            depth += 1
        elif q[j] == ')':
            depth -= 1
            if depth == 0:
                break
    inner = q[i + 1:j]
    rest = q[j + 1:]
    out = []
    depth = 0
    cur = ''
    for ch in inner:
        if ch in '<(':
            depth += 1
        elif ch in '>)':
            depth -= 1
        if ch == ',' and depth == 0:
            out.append(cur.strip())
            cur = ''
        else:
            cur += ch
    if cur.strip():
        out.append(cur.strip())
    if out == ['void']:
        out = []
    return out, rest


def sig_tag(params, own=None):
    parts = []
    for p in params:
        p = qualify(p)
        if own:
            p = p.replace(own + '::', '')
        base, n = split(p)
        s = sanitize(base) if base not in SCALARS else base.replace(' ', '_').replace('std::', '')
        pq = p.strip()
        if pq.endswith('&&'):
            s += '_rref'
        elif pq.endswith('&'):
            s += '_ref'
        elif n:
            s += '_ptr' * n
        parts.append(s)
    return '_'.join(parts)


class Rec:
    def __init__(self, node, printed, full, path_names):
        self.node = node
        self.printed = printed      # as clang prints the type (defaults suppressed)
        self.full = full            # with all template arguments
        self.cname = cname(full)
        self.fields = []
        self.bases = []
        self.methods = []
        self.tname = None
        self.targs = []
        self.is_lambda = False


class Fn:
    pass


class Lowering:
    def __init__(self, docs, want_ns=('gmlc',)):
        self.docs = docs
        self.by_id = {}
        self.recs = {}          # sanitized printed name -> Rec
        self.rec_of_id = {}     # record node id -> Rec
        self.owner = {}         # member decl id -> Rec
        self.fns = {}           # decl id -> Fn
        self.fn_order = []
        self.out_structs = []
        self.lambda_recs = []
        self.extern_used = {}
        self.mem_orders = []
        self.skipped = []
        self.statics = []
        self.aliases = {}
        for d in docs:
            self._index(d, [], False)
        self._name_functions()

    # ------------------------------------------------------------------ indexing
    def _targs(self, node):
        out = []
        for c in kids(node):
            if c.get('kind') == 'TemplateArgument':
                if 'type' in c:
                    out.append(qualify(c['type'].get('qualType')))
                elif 'value' in c:
                    out.append(str(c['value']))
                else:
                    ks = kids(c)
                    if ks and 'value' in ks[0]:
                        out.append(str(ks[0]['value']))
                    else:
                        out.append('?')
        return out

    def _defaults(self, tmpl):
        """template parameter list [(name, default-or-None)]"""
        out = []
        for c in kids(tmpl):
            if c.get('kind') in ('TemplateTypeParmDecl', 'NonTypeTemplateParmDecl'):
                d = c.get('defaultArg')
                dv = None
                if d:
                    if 'type' in d:
                        dv = qualify(d['type'].get('qualType'))
                    elif 'value' in d:
                        dv = str(d['value'])
                out.append((c.get('name'), dv))
        return out

    def _index(self, n, path, in_pattern):
        k = n.get('kind')
        if 'id' in n and k and k.endswith('Decl'):
            old = self.by_id.get(n['id'])
            if old is None or (not any(c.get('kind') == 'CompoundStmt' for c in kids(old))):
                self.by_id[n['id']] = n
        n['_pattern'] = in_pattern
        n['_path'] = path
        if k in ('CXXRecordDecl', 'ClassTemplateSpecializationDecl') and n.get('completeDefinition') \
                and not in_pattern:
            self._register_record(n, path)
        if k in ('FunctionDecl', 'CXXMethodDecl', 'CXXConstructorDecl', 'CXXDestructorDecl',
                 'CXXConversionDecl'):
            self._maybe_function(n, path, in_pattern)
        newpath = path + [n]
        for c in kids(n):
            ck = c.get('kind')
            pat = in_pattern
            if k == 'ClassTemplateDecl':
                pat = ck != 'ClassTemplateSpecializationDecl'
            elif k == 'FunctionTemplateDecl':
                pat = not any(x.get('kind') == 'TemplateArgument' for x in kids(c))
            elif k == 'ClassTemplatePartialSpecializationDecl':
                pat = True
            elif k == 'ClassTemplateSpecializationDecl':
                pat = False if not in_pattern else True
            self._index(c, newpath, pat)

    def _qualname(self, path, n):
        """(printed, full, tname) for record n given the enclosing path"""
        parts_p = []
        parts_f = []
        parts_t = []
        chain = [p for p in path if p.get('kind') in
                 ('NamespaceDecl', 'CXXRecordDecl', 'ClassTemplateSpecializationDecl')] + [n]
        tmpl_of = {}
        for i, p in enumerate(path):
            if p.get('kind') == 'ClassTemplateDecl':
                tmpl_of[p.get('name')] = p
        for p in chain:
            nm = p.get('name') or ''
            if p.get('kind') == 'ClassTemplateSpecializationDecl':
                targs = self._targs(p)
                full = nm + '<' + ', '.join(targs) + '>'
                # default suppression
                tmpl = None
                for q in path:
                    if q.get('kind') == 'ClassTemplateDecl' and q.get('name') == nm:
                        tmpl = q
                printed_args = list(targs)
                if tmpl is not None:
                    defs = self._defaults(tmpl)
                    while printed_args and len(printed_args) <= len(defs):
                        i = len(printed_args) - 1
                        dname, dv = defs[i]
                        if dv is None:
                            break
                        sub = dv
                        for (pn, _), av in zip(defs, targs):
                            sub = re.sub(r'\b' + re.escape(pn) + r'\b', av, sub)
                        if qualify(sub) == printed_args[i]:
                            printed_args.pop()
                        else:
                            break
                printed = nm + ('<' + ', '.join(printed_args) + '>' if printed_args else '<>')
                parts_p.append(printed)
                parts_f.append(full)
                parts_t.append(nm)
                p['_targs'] = targs
            else:
                parts_p.append(nm)
                parts_f.append(nm)
                parts_t.append(nm)
        return '::'.join(parts_p), '::'.join(parts_f), '::'.join(parts_t)

    def _register_record(self, n, path):
        if n['id'] in self.rec_of_id:
            return
        is_lambda = bool(n.get('definitionData', {}).get('isLambda'))
        if is_lambda:
            loc = n.get('_loc') or n.get('_begin')
            base = os.path.basename(loc[0]).split('.')[0] if loc and loc[0] else 'x'
            nm = 'lambda_%s_%s_%s' % (base, loc[1], loc[2])
            # make unique per enclosing instantiation
            encl = [p for p in path if p.get('kind') in ('FunctionDecl', 'CXXMethodDecl',
                                                         'CXXConstructorDecl', 'CXXDestructorDecl')]
            tag = ''
            encl_m = None
            if encl and encl[-1].get('mangledName'):
                encl_m = encl[-1]['mangledName']
                tag = '_%x' % (hash_str(encl_m) & 0xffffff)
            printed = full = tname = nm + tag
        else:
            printed, full, tname = self._qualname(path, n)
        r = Rec(n, printed, full, None)
        r.is_lambda = is_lambda
        if is_lambda:
            r.encl_mangled = encl_m
            r.encl_id = encl[-1]['id'] if encl else None
        r.tname = tname
        if n.get('kind') == 'ClassTemplateSpecializationDecl':
            r.targs = n.get('_targs', [])
        else:
            # nested in a specialization: inherit
            for p in reversed(path):
                if p.get('kind') == 'ClassTemplateSpecializationDecl':
                    r.targs = p.get('_targs', self._targs(p))
                    break
        for c in kids(n):
            if c.get('kind') == 'FieldDecl':
                r.fields.append(c)
                self.owner[c['id']] = r
            elif c.get('kind') in ('CXXMethodDecl', 'CXXConstructorDecl', 'CXXDestructorDecl',
                                   'CXXConversionDecl'):
                r.methods.append(c)
                self.owner[c['id']] = r
            elif c.get('kind') == 'FunctionTemplateDecl':
                for m in kids(c):
                    if m.get('kind') in ('CXXMethodDecl', 'CXXConstructorDecl', 'CXXConversionDecl'):
                        r.methods.append(m)
                        self.owner[m['id']] = r
        for c in kids(n):
            if c.get('kind') in ('TypeAliasDecl', 'TypedefDecl') and c.get('name'):
                t = c.get('type') or {}
                tgt = t.get('desugaredQualType') or t.get('qualType')
                for pre in {sanitize(qualify(printed)), sanitize(qualify(full))}:
                    self.aliases[pre + '__' + c['name']] = tgt
        for b in n.get('bases', []) or []:
            r.bases.append(b)
        self.rec_of_id[n['id']] = r
        for key in {sanitize(qualify(printed)), sanitize(qualify(full))}:
            if key in self.recs and self.recs[key] is not r:
                # a suppressed-default spelling colliding with another specialization:
                # keep the one whose *full* spelling equals the key
                if sanitize(qualify(self.recs[key].full)) == key:
                    continue
            self.recs[key] = r
        r.cname = sanitize(qualify(full))
        if is_lambda:
            r.cname = None
            self.lambda_recs.append(r)

    def _is_dependent(self, n):
        stack = [n]
        while stack:
            x = stack.pop()
            k = x.get('kind')
            if k in ('CXXDependentScopeMemberExpr', 'UnresolvedLookupExpr', 'CXXUnresolvedConstructExpr',
                     'ParenListExpr', 'UnresolvedMemberExpr', 'DependentScopeDeclRefExpr',
                     'PackExpansionExpr'):
                return True
            t = x.get('type')
            if isinstance(t, dict) and '<dependent type>' in (t.get('qualType') or ''):
                return True
            if k == 'LambdaExpr':
                # the trailing CompoundStmt repeats the body (for a generic lambda: the dependent pattern);
                # the bodies that count are the closure record's operator() instantiations
                stack.extend(c for c in kids(x) if c.get('kind') != 'CompoundStmt')
                continue
            if k == 'FunctionTemplateDecl':
                # generic lambda / member template nested in this function: only its instantiations count
                stack.extend(c for c in kids(x) if any(y.get('kind') == 'TemplateArgument' for y in kids(c)))
                continue
            stack.extend(kids(x))
        return False

    def _maybe_function(self, n, path, in_pattern):
        body = [c for c in kids(n) if c.get('kind') == 'CompoundStmt']
        if not body or in_pattern:
            return
        if not any(p.get('kind') == 'NamespaceDecl' and p.get('name') == 'gmlc' for p in path):
            # lambdas' operator() etc are nested inside gmlc functions anyway
            if not n.get('mangledName', '').startswith('_ZN4gmlc') and \
               not n.get('mangledName', '').startswith('_ZNK4gmlc') and \
               not n.get('mangledName', '').startswith('_ZZN4gmlc') and \
               not n.get('mangledName', '').startswith('_ZZNK4gmlc'):
                return
        if self._is_dependent(n):
            return
        if n['id'] in self.fns:
            return
        f = Fn()
        f.node = n
        f.path = path
        f.body = body[0]
        self.fns[n['id']] = f
        self.fn_order.append(f)

    # ------------------------------------------------------------------ naming
    def _member_base(self, n, rec):
        k = n.get('kind')
        name = n.get('name', '')
        params, rest = fsig_params(n['type']['qualType'])
        own = None
        if rec is not None:
            own = {sanitize(qualify(rec.printed)), sanitize(qualify(rec.full)), rec.cname}
        if k == 'CXXConstructorDecl':
            if not params:
                return 'ctor'
            if len(params) == 1 and rec is not None:
                b, np_ = split(params[0])
                if sanitize(b) in own or sanitize(b) == sanitize(rec.tname or ''):
                    return 'ctor_move' if params[0].strip().endswith('&&') else 'ctor_copy'
            return 'ctor__' + sig_tag(params, qualify(rec.printed) if rec is not None else None)
        if k == 'CXXDestructorDecl':
            return 'dtor'
        if k == 'CXXConversionDecl':
            if name == 'operator bool':
                return 'op_bool'
            return 'op_conv_' + sanitize(name[len('operator '):])
        if name == 'operator=' and len(params) == 1 and rec is not None:
            b, np_ = split(params[0])
            if sanitize(b) in own:
                return 'op_assign_move' if params[0].strip().endswith('&&') else 'op_assign_copy'
        if name in OPNAMES:
            return OPNAMES[name]
        if name.startswith('operator'):
            raise Unsupported('operator name ' + name)
        return name

    def _name_functions(self):
        # closures are named after their enclosing function: <fn>__lambda<k>
        normal = [f for f in self.fn_order if not (self.owner.get(f.node['id']) is not None and self.owner[f.node['id']].is_lambda)]
        lam = [f for f in self.fn_order if f not in normal]
        self._name_group(normal)
        pending = list(self.lambda_recs)
        guard = 0
        while pending and guard < 20:
            guard += 1
            rest = []
            newly = []
            for r in pending:
                ef = self.fns.get(r.encl_id)
                if ef is not None and getattr(ef, 'cname', None):
                    k = getattr(ef, 'nlambda', 0)
                    ef.nlambda = k + 1
                    r.cname = '%s__lambda%d' % (ef.cname, k)
                    r.tname = '%s::lambda%d' % (ef.tname, k)
                    r.full = r.printed = '%s::lambda%d' % (self.fn_qualname(ef), k)
                    r.targs = list(ef.rec.targs) if ef.rec is not None else []
                    newly.extend([f for f in lam if self.owner.get(f.node['id']) is r])
                else:
                    rest.append(r)
            self._name_group(newly)
            pending = rest
        for r in pending:
            r.cname = 'lambda_orphan_%x' % (hash_str(str(r.node.get('_loc'))) & 0xffffff)
        self._finish_naming()

    def _name_group(self, fns):
        groups = {}
        for f in fns:
            n = f.node
            rec = self.owner.get(n['id'])
            if rec is None:
                # out-of-line member definition: find via previousDecl / parentDeclContextId
                pid = n.get('parentDeclContextId')
                if pid and pid in self.rec_of_id:
                    rec = self.rec_of_id[pid]
                elif n.get('previousDecl') and n['previousDecl'] in self.owner:
                    rec = self.owner[n['previousDecl']]
            f.rec = rec
            f.is_method = n.get('kind') != 'FunctionDecl' and rec is not None
            f.is_static = n.get('storageClass') == 'static'
            prev = n.get('previousDecl')
            while prev and not f.is_static:
                pd = self.by_id.get(prev) or {}
                if pd.get('storageClass') == 'static':
                    f.is_static = True
                prev = pd.get('previousDecl')
            targs = self._targs(n)
            f.ftargs = targs
            base = self._member_base(n, rec) if n.get('kind') != 'FunctionDecl' else n['name']
            f.member = base
            if rec is not None and n.get('kind') != 'FunctionDecl':
                f.tname = (rec.tname or rec.cname) + '::' + base
                cn = rec.cname + '__' + base
            else:
                ns = [p.get('name') for p in f.path if p.get('kind') == 'NamespaceDecl']
                f.tname = base
                cn = sanitize(qualify(base))
            if targs:
                cn += '_T_' + sig_tag(targs)
            f.cname0 = cn
            groups.setdefault(cn, []).append(f)
        for cn, fs in groups.items():
            if len(fs) == 1:
                fs[0].cname = cn
                continue
            for f in fs:
                params, rest = fsig_params(f.node['type']['qualType'])
                suffix = sig_tag(params) or 'void'
                if ' const' in (' ' + rest):
                    suffix += '_const'
                f.cname = cn + '__' + suffix
            names = [f.cname for f in fs]
            if len(set(names)) != len(names):
                # same function instantiated twice through different paths (e.g. out-of-line
                # definition plus in-class declaration): keep first
                seen = set()
                for f in fs:
                    if f.cname in seen:
                        f.dup = True
                    seen.add(f.cname)
    def _finish_naming(self):
        for f in self.fn_order:
            f.dup = getattr(f, 'dup', False)
        # redirect declarations to definitions: a call references the in-class declaration id
        self.fn_by_decl = {}
        for f in self.fn_order:
            self.fn_by_decl[f.node['id']] = f
            prev = f.node.get('previousDecl')
            while prev:
                self.fn_by_decl[prev] = f
                prev = (self.by_id.get(prev) or {}).get('previousDecl')
        # map by mangled name as well (instantiated member declared in class, defined outside)
        self.fn_by_mangled = {f.node['mangledName']: f for f in self.fn_order if f.node.get('mangledName')}

    def find_fn(self, decl_id):
        f = self.fn_by_decl.get(decl_id)
        if f:
            return f
        d = self.by_id.get(decl_id)
        if d and d.get('mangledName') in self.fn_by_mangled:
            return self.fn_by_mangled[d['mangledName']]
        return None

    # ------------------------------------------------------------------ type helpers
    def rec_lookup(self, base):
        key = sanitize(base)
        if 'lambda at' in base:
            cur = getattr(self, 'cur_mangled', None)
            if cur:
                r = self.recs.get(key + '_%x' % (hash_str(cur) & 0xffffff))
                if r is not None:
                    return r
            cands = [r for k, r in self.recs.items() if k.startswith(key + '_') or k == key]
            if len(cands) == 1:
                return cands[0]
            return None
        return self.recs.get(key)

    def rec_of_type(self, q):
        q = self.unalias(q)
        base, n = split(q)
        return self.rec_lookup(base)

    def unalias(self, q):
        """resolve `Record::alias` spellings clang left sugared (no desugaredQualType in the dump)"""
        for _ in range(4):
            base, n = split(q)
            if base in SCALARS or self.rec_lookup(base) is not None or '::' not in base:
                return q
            i = base.rfind('::')
            key = sanitize(base[:i]) + '__' + base[i + 2:]
            tgt = self.aliases.get(key)
            if tgt is None:
                return q
            q = qualify(tgt) + ' *' * n
        return q

    def ctype(self, q):
        q = self.unalias(q)
        base, n = split(q)
        if base in SCALARS:
            return SCALARS[base] + '*' * n
        r = self.rec_lookup(base)
        if r is not None:
            return 'struct ' + r.cname + '*' * n
        if toplevel_paren(base) and 'lambda at' not in base:
            raise Unsupported('function type ' + q)
        return 'struct ' + cname(base) + '*' * n

    def class_cname(self, q):
        q = self.unalias(q)
        base, n = split(q)
        r = self.rec_lookup(base)
        return r.cname if r is not None else cname(base)

    def is_class(self, q):
        q = self.unalias(q)
        base, n = split(q)
        return n == 0 and base not in SCALARS

    def needs_dtor(self, q):
        q = self.unalias(q)
        base, n = split(q)
        if n or base in SCALARS:
            return False
        r = self.rec_lookup(base)
        if r is not None:
            dd = r.node.get('definitionData', {}).get('dtor', {})
            if dd.get('trivial'):
                return False
            return True
        return not matches(NODTOR_EXT, cname(base))

    def is_trivial_ext(self, q):
        q = self.unalias(q)
        base, n = split(q)
        return self.rec_lookup(base) is None and matches(TRIVIAL_EXT, cname(base))


def _base_recs(self, r):
    out = []
    for b in r.bases:
        bq = b['type'].get('desugaredQualType') or b['type']['qualType']
        rr = self.rec_of_type(bq)
        if rr is not None:
            out.append(rr)
    return out


def poly_root(self, r):
    """the polymorphic root class of r (single inheritance: first polymorphic base chain)"""
    cur = r
    while True:
        bs = [b for b in self._base_recs(cur) if b.node.get('definitionData', {}).get('isPolymorphic')]
        if not bs:
            return cur
        cur = bs[0]


def derives_from(self, r, base):
    cur = [r]
    seen = set()
    while cur:
        x = cur.pop()
        if x is base:
            return True
        if id(x) in seen:
            continue
        seen.add(id(x))
        cur.extend(self._base_recs(x))
    return False


def all_recs(self):
    seen = set()
    out = []
    for r in self.rec_of_id.values():
        if id(r) not in seen:
            seen.add(id(r))
            out.append(r)
    return out


def overriders(self, owner, decl):
    """final overrider of virtual `decl` (declared in owner) for every concrete class derived from owner"""
    name = decl.get('name')
    sig = fsig_params(decl['type']['qualType'])[0]
    out = []
    for r in self.all_recs():
        if r.is_lambda or not self.derives_from(r, owner):
            continue
        # walk from r up to owner: first class that declares the member
        cur = r
        found = None
        while cur is not None and found is None:
            for m in cur.methods:
                if m.get('name') == name and fsig_params(m['type']['qualType'])[0] == sig and not m.get('pure'):
                    f = self.find_fn(m['id'])
                    if f is not None:
                        found = f
                        break
            nxt = [b for b in self._base_recs(cur) if self.derives_from(b, owner)]
            cur = nxt[0] if nxt else None
        if found is not None:
            out.append((r, found))
    return out


Lowering._base_recs = _base_recs
Lowering.poly_root = poly_root
Lowering.derives_from = derives_from
Lowering.all_recs = all_recs
Lowering.overriders = overriders


def toplevel_paren(s):
    d = 0
    for ch in s:
        if ch == '<':
            d += 1
        elif ch == '>':
            d -= 1
        elif ch == '(' and d == 0:
            return True
    return False


def hash_str(s):
    h = 0
    for ch in s:
        h = (h * 131 + ord(ch)) & 0xffffffff
    return h


# ====================================================================== driver part
def _strip_to_ref(n):
    while n.get('kind') in ('ImplicitCastExpr', 'ParenExpr', 'CXXConstructExpr', 'CXXBindTemporaryExpr',
                            'ExprWithCleanups', 'MaterializeTemporaryExpr', 'CXXFunctionalCastExpr') and kids(n):
        n = kids(n)[0]
    return n


def _lambda_captures(L):
    """fill rec.captures for closure records: list of decl ids or 'this' (field order)"""
    def walk(n):
        if n.get('kind') == 'LambdaExpr':
            ks = kids(n)
            rec = L.rec_of_id.get(ks[0]['id']) if ks and ks[0].get('kind') == 'CXXRecordDecl' else None
            if rec is not None:
                inits = [c for c in ks[1:] if c.get('kind') != 'CompoundStmt']
                caps = []
                for ini in inits:
                    src = _strip_to_ref(ini)
                    if src.get('kind') == 'CXXThisExpr':
                        caps.append('this')
                    elif src.get('kind') == 'DeclRefExpr':
                        caps.append(src['referencedDecl']['id'])
                    else:
                        caps.append(None)
                rec.captures = caps
                # init-captures: the closure body refers to a VarDecl child of the record
        for c in kids(n):
            walk(c)
    for d in L.docs:
        walk(d)


def fn_ret_q(self, f):
    n = f.node
    if n['kind'] in ('CXXConstructorDecl', 'CXXDestructorDecl'):
        return 'void'
    q = n['type']['qualType']
    # find the parameter list: the '(' matching the last top-level ')' before qualifiers
    depth = 0
    start = None
    for i, ch in enumerate(q):
        if ch in '<':
            depth += 1
        elif ch in '>':
            if i > 0 and q[i - 1] == '-':
                continue
            depth -= 1
        elif ch == '(' and depth == 0:
            start = i
            break
    ret = q[:start].strip()
    if '->' in q[start:]:
        ret = q[q.rindex('->') + 2:].strip()
    if n['kind'] == 'CXXConversionDecl':
        ret = n['name'][len('operator '):]
    if ret in ('auto', 'decltype(auto)', 'auto &&', 'auto &', 'const auto &') or 'auto' in ret.split():
        # deduced: take the type of the first return operand
        st = [f.body]
        while st:
            x = st.pop(0)
            if x.get('kind') == 'LambdaExpr':
                continue
            if x.get('kind') == 'ReturnStmt':
                ks = kids(x)
                if not ks:
                    return 'void'
                t = qt(ks[0])
                if ks[0].get('valueCategory') in ('lvalue',) and '&' in ret:
                    t += ' &'
                return t
            st = kids(x) + st
        return 'void'
    # sugar inside the declared type (aliases such as TriplineType): a prvalue return operand has
    # exactly the function's return type, desugared by clang
    b0, n0 = split(ret)
    if n0 == 0 and b0 not in SCALARS:
        st = [f.body]
        while st:
            x = st.pop(0)
            if x.get('kind') == 'LambdaExpr':
                continue
            if x.get('kind') == 'ReturnStmt':
                ks = kids(x)
                if ks and ks[0].get('valueCategory') == 'prvalue' and (ks[0].get('type') or {}).get('desugaredQualType'):
                    return ks[0]['type']['desugaredQualType']
                break
            st = kids(x) + st
    # typedef-sugared names local to the class: resolve through a return operand if unknown
    return self.resolve_sugar(ret, f)


def resolve_sugar(self, ret, f):
    base, n = split(ret)
    if base in SCALARS or self.recs.get(sanitize(base)) is not None:
        return ret
    if base.startswith('std::') and '::type' not in base and 'conditional' not in base and 'enable_if' not in base:
        return ret
    if base.startswith('vf::'):
        return ret
    # sugar such as guarded<...>::handle, std::enable_if<...>::type : use a return operand's
    # desugared type (references keep the declared reference-ness)
    st = [f.body]
    while st:
        x = st.pop(0)
        if x.get('kind') == 'LambdaExpr':
            continue
        if x.get('kind') == 'ReturnStmt':
            ks = kids(x)
            if not ks:
                return 'void'
            t = qt(ks[0])
            if qualify(ret).rstrip().endswith('&') and not qualify(t).rstrip().endswith('&'):
                t += ' &'
            return t
        st = kids(x) + st
    if base.endswith('::type') or 'conditional_t' in base or 'enable_if' in base:
        return 'void'
    return ret


def fn_qualname(self, f):
    n = f.node
    nm = n.get('name', '?')
    if f.ftargs:
        nm += '<' + ', '.join(f.ftargs) + '>'
    if f.rec is not None:
        return f.rec.full + '::' + nm
    return nm


Lowering.fn_ret_q = fn_ret_q
Lowering.resolve_sugar = resolve_sugar
Lowering.fn_qualname = fn_qualname


def emit_structs(L, ext_structs=None):
    ext_structs = ext_structs or {}
    recs = []
    seen = set()
    for r in L.rec_of_id.values():
        if id(r) not in seen:
            seen.add(id(r))
            recs.append(r)
    by_c = {r.cname: r for r in recs}
    out = []
    done = set()

    def deps(r):
        ds = []
        for b in r.bases:
            bq = b['type'].get('desugaredQualType') or b['type']['qualType']
            rr = L.rec_of_type(bq)
            if rr is not None:
                ds.append(rr)
        for fd in r.fields:
            q = qt(fd)
            if L.is_class(q):
                rr = L.rec_of_type(q)
                if rr is not None:
                    ds.append(rr)
        return ds

    def visit_ext(name, stack=()):
        if name in done:
            return
        if name in stack:
            raise Unsupported('recursive by-value struct ' + name)
        body, dnames = ext_structs[name]
        for dn in dnames:
            if dn in by_c:
                visit(by_c[dn], stack + (name,))
            elif dn in ext_structs:
                visit_ext(dn, stack + (name,))
        done.add(name)
        out.append('/* model struct (trusted, from the unit spec) */\nstruct %s { %s };' % (name, body))

    def visit(r, stack=()):
        if r.cname in done:
            return
        if r.cname in stack:
            raise Unsupported('recursive by-value struct ' + r.cname)
        for d in deps(r):
            visit(d, stack + (r.cname,))
        # by-value fields / bases of model (external) struct types defined by the unit spec
        for b in r.bases:
            bq = b['type'].get('desugaredQualType') or b['type']['qualType']
            cn = L.class_cname(bq)
            if cn in ext_structs:
                visit_ext(cn, stack + (r.cname,))
        for fd in r.fields:
            q = qt(fd)
            if L.is_class(q) and L.class_cname(q) in ext_structs:
                visit_ext(L.class_cname(q), stack + (r.cname,))
        done.add(r.cname)
        lines = ['struct %s {' % r.cname]
        for b in r.bases:
            bq = b['type'].get('desugaredQualType') or b['type']['qualType']
            lines.append('  %s vf_base;' % L.ctype(bq))
        if len(r.bases) > 1:
            raise Unsupported('multiple inheritance in ' + r.cname)
        for i, fd in enumerate(r.fields):
            q = qt(fd)
            nm = 'cap%d' % i if r.is_lambda else fd['name']
            lines.append('  %s %s;' % (L.ctype(q), nm))
        if r.node.get('definitionData', {}).get('isPolymorphic') and L.poly_root(r) is r:
            lines.insert(1, '  int vf_vtag;   /* dynamic type (lowering of the vtable pointer) */')
        if len(lines) == 1:
            lines.append('  char vf_empty;')
        lines.append('};')
        out.append('\n'.join(lines))

    fwd = ['struct %s;' % r.cname for r in recs] + ['struct %s;' % n for n in ext_structs]
    for r in recs:
        visit(r)
    for n in ext_structs:
        visit_ext(n)
    return '\n'.join(fwd) + '\n\n' + '\n\n'.join(out)


def lower_all(path, only=None, ext_structs=None):
    from stmts import FnLowerS
    docs = load(path)
    L = Lowering(docs)
    L.static_vars = {}
    L.static_defs = []
    _lambda_captures(L)
    funcs = []
    meta = {'functions': [], 'records': [], 'skipped': []}
    # synthesise destructors for records that need one but have no decl body
    have_dtor = set()
    for f in L.fn_order:
        if f.node['kind'] == 'CXXDestructorDecl' and f.rec is not None and not f.rec.is_lambda and not f.dup:
            have_dtor.add(f.rec.cname)
    texts = []
    text_of = {}
    protos = []
    for f in L.fn_order:
        if f.dup:
            continue
        if f.rec is not None and f.rec.is_lambda and f.member != 'op_call':
            continue
        closure = f.rec if (f.rec is not None and f.rec.is_lambda) else None
        if closure is not None and not hasattr(closure, 'captures'):
            raise Unsupported('closure without LambdaExpr: ' + closure.cname)
        fl = FnLowerS(L, f, closure=closure)
        L.cur_mangled = f.node.get('mangledName')
        try:
            text = fl.lower()
        except Unsupported as e:
            loc = f.node.get('_loc')
            raise Unsupported('%s  (in %s at %s)' % (e, f.cname, loc))
        texts.append(text)
        text_of[f.cname] = text
        protos.append(fl.proto + ';')
        meta['functions'].append({
            'cname': f.cname, 'qualname': L.fn_qualname(f), 'tname': f.tname,
            'class': f.rec.cname if f.rec is not None else None,
            'class_tname': f.rec.tname if f.rec is not None else None,
            'targs': [sanitize(a) for a in ((f.rec.targs if f.rec is not None else []) or [])],
            'ftargs': [sanitize(a) for a in f.ftargs],
            'params': fl.cparams, 'ret': fl.crt, 'ret_kind': fl.ret_kind,
            'noexcept': fl.noexcept, 'loops': fl.loopn,
            'loc': list(f.node.get('_loc') or []), 'end': list(f.node.get('_end') or []),
            'calls': sorted(fl.calls), 'externs': sorted(fl.externs), 'node_kinds': fl.nkinds,
            'kind': f.node['kind'], 'member': f.member,
        })
    # synthesised destructors
    seen = set()
    for r in L.rec_of_id.values():
        if id(r) in seen:
            continue
        seen.add(id(r))
        if r.cname in have_dtor:
            continue
        q = r.full
        dd = r.node.get('definitionData', {}).get('dtor', {})
        if dd.get('trivial'):
            continue
        lines = ['/* implicit destructor of %s (memberwise, synthesised) */' % r.full,
                 'void %s__dtor(struct %s* self)' % (r.cname, r.cname), '/*@CONTRACT %s__dtor@*/' % r.cname, '{']
        calls = []
        for i, fd in reversed(list(enumerate(r.fields))):
            fq = qt(fd)
            nm = 'cap%d' % i if r.is_lambda else fd['name']
            if L.needs_dtor(fq):
                lines.append('  %s__dtor(&self->%s);' % (L.class_cname(fq), nm))
                calls.append(L.class_cname(fq) + '__dtor')
        for b in reversed(r.bases):
            bq = b['type'].get('desugaredQualType') or b['type']['qualType']
            if L.needs_dtor(bq):
                lines.append('  %s__dtor((%s*)self);' % (L.class_cname(bq), L.ctype(bq)))
                calls.append(L.class_cname(bq) + '__dtor')
        lines.append('}')
        texts.append('\n'.join(lines))
        text_of[r.cname + '__dtor'] = '\n'.join(lines)
        protos.append('void %s__dtor(struct %s* self);' % (r.cname, r.cname))
        meta['functions'].append({'cname': r.cname + '__dtor', 'qualname': r.full + '::~(implicit)',
                                  'tname': (r.tname or r.cname) + '::dtor', 'class': r.cname,
                                  'class_tname': r.tname, 'targs': [sanitize(a) for a in r.targs], 'ftargs': [],
                                  'params': ['struct %s* self' % r.cname], 'ret': 'void', 'ret_kind': 'void',
                                  'noexcept': True, 'loops': 0, 'loc': list(r.node.get('_loc') or []),
                                  'end': [], 'calls': calls, 'externs': [], 'node_kinds': {},
                                  'kind': 'CXXDestructorDecl', 'member': 'dtor', 'synthesised': True})
    seen = set()
    for r in L.rec_of_id.values():
        if id(r) in seen:
            continue
        seen.add(id(r))
        meta['records'].append({'cname': r.cname, 'full': r.full, 'tname': r.tname,
                                'targs': [sanitize(a) for a in r.targs],
                                'fields': [[('cap%d' % i if r.is_lambda else fd['name']), L.ctype(qt(fd))] for i, fd in enumerate(r.fields)]})
    # dynamic-type tags and virtual-destructor dispatchers for polymorphic hierarchies
    tagdefs = []
    polys = [r for r in L.all_recs() if r.node.get('definitionData', {}).get('isPolymorphic')]
    for i, r in enumerate(polys):
        tagdefs.append('#define VF_TAG_%s %d' % (r.cname, i + 1))
    for root in [r for r in polys if L.poly_root(r) is r]:
        lines = ['/* virtual destructor dispatch for the hierarchy rooted at %s (lowering of the vtable) */' % root.full,
                 'void %s__vdtor(struct %s* p)' % (root.cname, root.cname), '{']
        first = True
        for r in polys:
            if L.poly_root(r) is not root:
                continue
            if r.node.get('definitionData', {}).get('isAbstract'):
                continue
            lines.append('  %sif (p->vf_vtag == VF_TAG_%s) %s__dtor((struct %s*)p);' % ('' if first else 'else ', r.cname, r.cname, r.cname))
            first = False
        lines.append('  %s__CPROVER_assert(0, "[vcall] object with a dynamic type outside the lowered class hierarchy is destroyed");' % ('' if first else 'else '))
        lines.append('}')
        texts.append('\n'.join(lines))
        text_of[root.cname + '__vdtor'] = '\n'.join(lines)
        protos.append('void %s__vdtor(struct %s* p);' % (root.cname, root.cname))
    structs = emit_structs(L, ext_structs)
    decls = '\n'.join(['/* generated by cxx2c from %s — do not edit */' % path, '\n'.join(tagdefs), structs, '',
                       '\n'.join(L.static_defs), '', '\n'.join(protos), ''])
    defs = '\n\n'.join(texts) + '\n'
    meta['texts'] = text_of
    meta['order'] = [t for t in text_of]
    return decls, defs, meta


if __name__ == '__main__':
    try:
        decls, defs, meta = lower_all(sys.argv[1])
        text = decls + defs
    except Unsupported as e:
        sys.stderr.write('cxx2c: unsupported: %s\n' % e)
        sys.exit(2)
    open(sys.argv[2], 'w').write(text)
    json.dump(meta, open(sys.argv[3], 'w'), indent=1)
