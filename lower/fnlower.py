"""Function-body lowering for cxx2c (see cxx2c.py)."""
import os
import re
from typenames import Unsupported, SCALARS, qualify, split, sanitize, cname
from cxx2c import (kids, qt, matches, fsig_params, sig_tag, OPNAMES, TRIVIAL_EXT, C_RESERVED,
                   IDENTITY_FUNCS)

CAST_KINDS = ('ImplicitCastExpr', 'CStyleCastExpr', 'CXXStaticCastExpr', 'CXXFunctionalCastExpr',
              'CXXConstCastExpr', 'CXXReinterpretCastExpr')
CALL_KINDS = ('CallExpr', 'CXXMemberCallExpr', 'CXXOperatorCallExpr')
CTOR_KINDS = ('CXXConstructExpr', 'CXXTemporaryObjectExpr')

# free functions outside gmlc that are lowered to a fixed model name
EXT_FREE = {'yield': 'std_this_thread_yield', 'sleep_for': 'std_this_thread_sleep_for',
            'swap': None, 'make_shared': None, 'begin': None, 'end': None}


def deref(p):
    p = p.strip()
    if p.startswith('&') and not p.startswith('&&'):
        q = p[1:]
        if re.match(r'^[A-Za-z_][A-Za-z0-9_]*$', q) or (q.startswith('(') and balanced(q)):
            return q
        return '(' + q + ')'
    return '(*' + p + ')'


def balanced(s):
    if not (s.startswith('(') and s.endswith(')')):
        return False
    d = 0
    for i, ch in enumerate(s):
        if ch == '(':
            d += 1
        elif ch == ')':
            d -= 1
            if d == 0 and i != len(s) - 1:
                return False
    return d == 0


def arrow(p, field):
    p = p.strip()
    if p.startswith('&') and not p.startswith('&&'):
        return '%s.%s' % (deref(p), field)
    return '%s->%s' % (p if re.match(r'^[A-Za-z_][A-Za-z0-9_>\-\.]*$', p) else '(' + p + ')', field)


class FnLower:
    def __init__(self, L, f, closure=None):
        self.L = L
        self.f = f
        self.lines = []
        self.ind = 1
        self.scopes = []
        self.frames = []
        self.varmap = {}
        self.tmpn = 0
        self.labeln = 0
        self.loopn = 0
        self.calls = set()
        self.externs = set()
        self.this_expr = 'self'
        self.closure = closure
        self.caught_stack = []
        self.last_loc = None
        self.cond_stack = []
        self.rename = {}
        self.hoisted = set()
        self.nkinds = {}
        self.ret_kind = 'void'
        self.noexcept = False

    # ------------------------------------------------------------------ emission
    def emit(self, s):
        self.lines.append('  ' * self.ind + s)

    def loc_comment(self, n):
        loc = n.get('_begin') or n.get('_loc')
        if loc and loc[0] and loc != self.last_loc:
            self.last_loc = loc
            self.emit('/* %s:%s */' % (os.path.relpath(loc[0], '/repo') if loc[0].startswith('/repo') else loc[0], loc[1]))

    def fresh(self, p='t'):
        self.tmpn += 1
        return 'vf_%s%d' % (p, self.tmpn)

    def label(self, p='L'):
        self.labeln += 1
        return 'vf_%s%d' % (p, self.labeln)

    def count(self, n):
        k = n.get('kind')
        self.nkinds[k] = self.nkinds.get(k, 0) + 1

    # ------------------------------------------------------------------ scopes & cleanup
    def push_scope(self, kind='block', **kw):
        s = {'kind': kind, 'entries': []}
        s.update(kw)
        self.scopes.append(s)
        return s

    def pop_scope(self, run=True):
        s = self.scopes.pop()
        if run:
            for e in reversed(s['entries']):
                self.emit(e['code'])
        return s

    def push_frame(self):
        self.frames.append([])

    def pop_frame(self):
        fr = self.frames.pop()
        for e in reversed(fr):
            self.emit(e['code'])

    def reg_dtor(self, q, ptr, where='scope', nrvo_id=None):
        if not self.L.needs_dtor(q):
            return
        code = '%s__dtor(%s);' % (self.L.class_cname(q), ptr)
        self.calls.add(self.L.class_cname(q) + '__dtor')
        e = {'code': code, 'nrvo': nrvo_id}
        if where == 'frame' and self.frames:
            self.frames[-1].append(e)
        else:
            self.scopes[-1]['entries'].append(e)

    # ---- class temporaries; inside a conditionally evaluated operand the declaration is hoisted
    # in front of the conditional and guarded by a liveness flag (the temporary lives until the end
    # of the full-expression, but only exists if its branch was taken)
    def enter_cond(self):
        self.cond_stack.append(len(self.lines))

    def leave_cond(self):
        return self.cond_stack.pop()

    def new_class_temp(self, q, prefix='tmp'):
        t = self.fresh(prefix)
        decl = '%s %s;' % (self.L.ctype(q), t)
        if self.cond_stack and self.L.needs_dtor(q):
            i = self.cond_stack[0]
            self.lines.insert(i, '  ' * self.ind + decl + ' _Bool %s_live = 0;' % t)
            self.cond_stack = [x + 1 for x in self.cond_stack]
            self.hoisted.add(t)
        else:
            self.emit(decl)
        return t

    def temp_done(self, q, t, where='frame'):
        if not self.L.needs_dtor(q):
            return
        if t in self.hoisted:
            if where != 'frame':
                raise Unsupported('lifetime-extended temporary inside a conditional operand')
            self.emit('%s_live = 1;' % t)
            code = 'if (%s_live) %s__dtor(&%s);' % (t, self.L.class_cname(q), t)
            self.calls.add(self.L.class_cname(q) + '__dtor')
            self.frames[-1].append({'code': code, 'nrvo': None})
        else:
            self.reg_dtor(q, '&' + t, where)

    def cleanup_lines(self, mode, skip_nrvo=None):
        """mode: 'exc' | 'ret' | 'loop' -> list of C statements"""
        out = []
        for fr in reversed(self.frames):
            for e in reversed(fr):
                out.append(e['code'])
        for s in reversed(self.scopes):
            if mode == 'exc' and s['kind'] == 'try':
                break
            if s['kind'] == 'ctor_members' and mode != 'exc':
                continue
            for e in reversed(s['entries']):
                if skip_nrvo is not None and e.get('nrvo') == skip_nrvo:
                    continue
                out.append(e['code'])
            if mode == 'loop' and s['kind'] == 'loop':
                break
        return out

    def exc_target(self):
        for s in reversed(self.scopes):
            if s['kind'] == 'try':
                return s['label']
        return 'vf_exc_out'

    def exc_check(self):
        cl = self.cleanup_lines('exc')
        self.emit('if (vf_exc) { %s goto %s; }' % (' '.join(cl), self.exc_target()))
        self.uses_exc_out = True

    # ------------------------------------------------------------------ variables
    def cvar(self, name):
        if name in C_RESERVED or name.startswith('vf_'):
            return name + '_'
        return name

    def declare_param(self, p):
        q = qt(p)
        name = self.cvar(p.get('name') or self.fresh('unnamed'))
        base, n = split(q)
        isref = qualify(q).rstrip().endswith('&')
        if isref:
            self.varmap[p['id']] = ('ptr', name)
            return '%s %s' % (self.L.ctype(q), name)
        if self.L.is_class(q):
            self.varmap[p['id']] = ('ptr', name)
            return '%s* %s' % (self.L.ctype(q), name)
        self.varmap[p['id']] = ('val', name)
        return '%s %s' % (self.L.ctype(q), name)

    # ------------------------------------------------------------------ expressions
    def is_glvalue(self, n):
        return n.get('valueCategory') in ('lvalue', 'xvalue')

    def strip_parens(self, n):
        while n.get('kind') in ('ParenExpr', 'ConstantExpr', 'SubstNonTypeTemplateParmExpr') and kids(n):
            n = kids(n)[0]
        return n

    def rv(self, n):
        """scalar prvalue -> C expression"""
        self.count(n)
        k = n['kind']
        ks = kids(n)
        if k in ('ParenExpr',):
            return '(' + self.rv(ks[0]) + ')'
        if k in ('ConstantExpr', 'SubstNonTypeTemplateParmExpr'):
            if 'value' in n and (not ks or str(n['value']) in ('true', 'false') or re.fullmatch(r'-?\d+', str(n['value']))):
                # an evaluated constant (e.g. the condition of `if constexpr`): clang's value is used
                return {'true': '1', 'false': '0'}.get(str(n['value']), str(n['value']))
            return self.rv(ks[0])
        if k == 'ExprWithCleanups':
            self.push_frame()
            e = self.rv(ks[0])
            if self.frames[-1]:
                if self.L.ctype(qt(n)) != 'void':
                    t = self.fresh()
                    self.emit('%s %s = %s;' % (self.L.ctype(qt(n)), t, e))
                    e = t
                else:
                    if e and e != '((void)0)':
                        self.emit(e + ';')
                    e = '((void)0)'
            self.pop_frame()
            return e
        if k in CAST_KINDS:
            ck = n.get('castKind')
            c = ks[0]
            if ck == 'LValueToRValue':
                if self.L.is_class(qt(n)):
                    raise Unsupported('LValueToRValue on class type ' + qt(n))
                return deref(self.lv(c))
            if ck == 'NoOp':
                if self.is_glvalue(n):
                    raise Unsupported('rv of glvalue NoOp')
                return self.rv(c)
            if ck == 'IntegralCast' and self.L.ctype(qt(n)) in ('unsigned long', 'unsigned int', 'unsigned long long') and \
                    self.L.ctype(qt(c)) in ('int', 'long', 'long long', 'short', 'signed char'):
                # signed -> unsigned is modular arithmetic in C++ (well defined): not an overflow
                return '((%s)vf_s2u_%s(%s))' % (self.L.ctype(qt(n)), '32' if self.L.ctype(qt(n)) == 'unsigned int' else '64', self.rv(c))
            if ck in ('IntegralCast', 'BitCast', 'IntegralToFloating', 'FloatingToIntegral',
                      'FloatingCast', 'IntegralToPointer', 'PointerToIntegral'):
                return '((%s)%s)' % (self.L.ctype(qt(n)), self.rv(c))
            if ck in ('IntegralToBoolean', 'PointerToBoolean', 'FloatingToBoolean'):
                return '(%s != 0)' % self.rv(c)
            if ck == 'NullToPointer':
                return '((%s)0)' % self.L.ctype(qt(n))
            if ck in ('DerivedToBase', 'UncheckedDerivedToBase'):
                return '((%s)%s)' % (self.L.ctype(qt(n)), self.rv(c))
            if ck in ('UserDefinedConversion',):
                return self.rv(c)
            if ck == 'ToVoid':
                self.discard(c)
                return '((void)0)'
            if ck in ('FunctionToPointerDecay', 'ArrayToPointerDecay'):
                return self.lv(c)
            raise Unsupported('cast kind %s' % ck)
        if k == 'IntegerLiteral':
            v = str(n['value'])
            t = self.L.ctype(qt(n))
            if t == 'unsigned long':
                v += 'UL'
            elif t == 'unsigned int':
                v += 'U'
            elif t == 'long':
                v += 'L'
            return v
        if k == 'CXXBoolLiteralExpr':
            return '1' if n['value'] else '0'
        if k == 'CXXNullPtrLiteralExpr':
            return '((void*)0)'
        if k == 'FloatingLiteral':
            return str(n['value'])
        if k == 'CharacterLiteral':
            return str(n['value'])
        if k in ('CXXScalarValueInitExpr', 'ImplicitValueInitExpr', 'GNUNullExpr'):
            return '((%s)0)' % self.L.ctype(qt(n))
        if k == 'CXXThisExpr':
            return self.this_expr
        if k == 'DeclRefExpr':
            rd = n['referencedDecl']
            if rd['kind'] == 'EnumConstantDecl':
                return 'vf_e_' + rd['name']
            if rd['kind'] in ('VarDecl', 'ParmVarDecl', 'BindingDecl'):
                return deref(self.lv(n))
            raise Unsupported('rv DeclRefExpr to ' + rd['kind'])
        if k == 'UnaryOperator':
            op = n['opcode']
            if op == '&':
                return self.lv(ks[0])
            if op in ('!', '-', '~', '+'):
                return '(%s%s)' % (op, self.rv(ks[0]))
            if op in ('++', '--'):
                p = self.lv_stable(ks[0])
                if n.get('isPostfix'):
                    t = self.fresh()
                    self.emit('%s %s = %s;' % (self.L.ctype(qt(n)), t, deref(p)))
                    self.emit('%s = %s %s 1;' % (deref(p), deref(p), op[0]))
                    return t
                self.emit('%s = %s %s 1;' % (deref(p), deref(p), op[0]))
                return deref(p)
            if op == '*':
                return deref(self.rv(ks[0]))
            raise Unsupported('unary ' + op)
        if k == 'BinaryOperator':
            op = n['opcode']
            if op == ',':
                self.discard(ks[0])
                return self.rv(ks[1])
            if op in ('&&', '||'):
                a = self.rv(ks[0])
                self.enter_cond()
                self.ind += 1
                b = self.rv(ks[1])
                self.ind -= 1
                mark = self.leave_cond()
                if len(self.lines) == mark:
                    return '(%s %s %s)' % (a, op, b)
                sub = self.lines[mark:]
                del self.lines[mark:]
                t = self.fresh()
                self.emit('_Bool %s = (%s) != 0;' % (t, a))
                self.emit('if (%s%s) {' % ('' if op == '&&' else '!', t))
                self.lines.extend(sub)
                self.ind += 1
                self.emit('%s = (%s) != 0;' % (t, b))
                self.ind -= 1
                self.emit('}')
                return t
            if op in ('=',) or op.endswith('=') and op not in ('==', '!=', '<=', '>='):
                return deref(self.lv(n))
            a = self.rv(ks[0])
            a = self.stabilise(a, ks[0], ks[1])
            b = self.rv(ks[1])
            return '(%s %s %s)' % (a, op, b)
        if k == 'CompoundAssignOperator':
            return deref(self.lv(n))
        if k == 'ConditionalOperator':
            c = self.rv(ks[0])
            t = self.fresh()
            ty = self.L.ctype(qt(n))
            self.emit('%s %s;' % (ty, t))
            self.enter_cond()
            self.emit('if (%s) {' % c)
            self.ind += 1
            self.emit('%s = %s;' % (t, self.rv(ks[1])))
            self.ind -= 1
            self.emit('} else {')
            self.ind += 1
            self.emit('%s = %s;' % (t, self.rv(ks[2])))
            self.ind -= 1
            self.emit('}')
            self.leave_cond()
            return t
        if k in CALL_KINDS:
            return self.call(n, mode='rv')
        if k == 'CXXDefaultArgExpr':
            return self.default_arg(n)
        if k == 'UnaryExprOrTypeTraitExpr':
            if n.get('name') == 'sizeof':
                at = n.get('argType') or (ks and ks[0].get('type'))
                return 'sizeof(%s)' % self.L.ctype(at.get('desugaredQualType') or at['qualType'])
            raise Unsupported('UnaryExprOrTypeTraitExpr ' + str(n.get('name')))
        if k == 'CXXNewExpr':
            return self.new_expr(n)
        if k == 'InitListExpr':
            if not ks:
                return '((%s)0)' % self.L.ctype(qt(n))
            if len(ks) == 1:
                return self.rv(ks[0])
        if k == 'MaterializeTemporaryExpr':
            return deref(self.lv(n))
        if k == 'StringLiteral':
            return n.get('value', '""')
        if k in ('CXXNoexceptExpr', 'TypeTraitExpr', 'SizeOfPackExpr') and 'value' in n:
            return str(n['value'])
        if k == 'MemberExpr' and not self.is_glvalue(n):
            # member of a prvalue / enum member
            return deref(self.lv(n))
        raise Unsupported('rv %s' % k)

    def stabilise(self, a, an, bn):
        """fix left-to-right evaluation when the right operand has side effects"""
        if self.has_effects(bn) and not re.match(r'^[\w\d]+$', a):
            t = self.fresh()
            self.emit('%s %s = %s;' % (self.L.ctype(qt(an)), t, a))
            return t
        return a

    def has_effects(self, n):
        st = [n]
        while st:
            x = st.pop()
            if x.get('kind') in CALL_KINDS + CTOR_KINDS + ('CXXNewExpr', 'CXXDeleteExpr', 'CompoundAssignOperator', 'LambdaExpr'):
                return True
            if x.get('kind') == 'BinaryOperator' and x.get('opcode') == '=':
                return True
            if x.get('kind') == 'UnaryOperator' and x.get('opcode') in ('++', '--'):
                return True
            st.extend(kids(x))
        return False

    def lv_stable(self, n):
        p = self.lv(n)
        if re.match(r'^&?[\w>\-\.]+$', p.replace('self->', 'self_')):
            return p
        t = self.fresh('p')
        self.emit('%s* %s = %s;' % (self.L.ctype(qt(n)), t, p))
        return t

    def default_arg(self, n):
        q = qt(n)
        base, np_ = split(q)
        if 'memory_order' in base:
            return 'VF_DEFAULT_MO'
        ks = kids(n)
        if ks:
            return self.rv(ks[0])
        raise Unsupported('default argument of type ' + q)

    def lv(self, n):
        """glvalue -> C pointer expression"""
        self.count(n)
        k = n['kind']
        ks = kids(n)
        if k in ('ParenExpr', 'ConstantExpr', 'SubstNonTypeTemplateParmExpr'):
            return self.lv(ks[0])
        if k == 'DeclRefExpr':
            rd = n['referencedDecl']
            if rd['id'] in self.varmap:
                kind, nm = self.varmap[rd['id']]
                return nm if kind == 'ptr' else '&' + nm
            if rd['kind'] in ('VarDecl',):
                full = self.L.by_id.get(rd['id'])
                if full is not None and full.get('storageClass') == 'static' and rd['id'] in self.L.static_vars:
                    return '&' + self.L.static_vars[rd['id']]
                self.externs.add('vf_g_' + rd['name'])
                return '&vf_g_' + rd['name']
            if rd['kind'] in ('FunctionDecl', 'CXXMethodDecl'):
                f = self.L.find_fn(rd['id'])
                if f is None:
                    raise Unsupported('reference to function %s without body' % rd['name'])
                self.calls.add(f.cname)
                return f.cname
            raise Unsupported('lv DeclRefExpr to %s %s' % (rd['kind'], rd.get('name')))
        if k == 'MemberExpr':
            b = ks[0]
            if n.get('isArrow'):
                base = self.rv(b)
            else:
                base = self.lv(b)
            fid = n.get('referencedMemberDecl')
            fd = self.L.by_id.get(fid)
            fname = n['name']
            if fd is not None and fd.get('kind') == 'FieldDecl':
                fq = qt(fd)
                if qualify(fq).rstrip().endswith('&'):
                    return arrow(base, fname)
            elif fd is not None and fd.get('kind') == 'VarDecl':
                return '&' + self.L.static_member(fd)
            return '&' + arrow(base, fname)
        if k == 'UnaryOperator':
            op = n['opcode']
            if op == '*':
                return self.rv(ks[0])
            if op in ('++', '--') and not n.get('isPostfix'):
                p = self.lv_stable(ks[0])
                self.emit('%s = %s %s 1;' % (deref(p), deref(p), op[0]))
                return p
            raise Unsupported('lv unary ' + op)
        if k == 'BinaryOperator':
            op = n['opcode']
            if op == '=':
                v = self.rv(ks[1])
                if self.has_effects(ks[0]):
                    t = self.fresh()
                    self.emit('%s %s = %s;' % (self.L.ctype(qt(ks[1])), t, v))
                    v = t
                p = self.lv_stable(ks[0])
                self.emit('%s = %s;' % (deref(p), v))
                return p
            if op == ',':
                self.discard(ks[0])
                return self.lv(ks[1])
            raise Unsupported('lv binary ' + op)
        if k == 'CompoundAssignOperator':
            op = n['opcode']
            v = self.rv(ks[1])
            p = self.lv_stable(ks[0])
            self.emit('%s %s %s;' % (deref(p), op, v))
            return p
        if k in CAST_KINDS:
            ck = n.get('castKind')
            if ck in ('NoOp', 'LValueBitCast'):
                return self.lv(ks[0])
            if ck in ('DerivedToBase', 'UncheckedDerivedToBase'):
                return '((%s*)%s)' % (self.L.ctype(qt(n)), self.lv(ks[0]))
            if ck in ('FunctionToPointerDecay',):
                return self.lv(ks[0])
            raise Unsupported('lv cast kind %s' % ck)
        if k in CALL_KINDS:
            return self.call(n, mode='lv')
        if k == 'MaterializeTemporaryExpr':
            c = ks[0]
            q = qt(n)
            where = 'scope' if n.get('storageDuration') == 'automatic' else 'frame'
            if self.L.is_class(q):
                t = self.new_class_temp(q, 'tmp')
                self.into(c, '&' + t)
                self.temp_done(q, t, where)
            else:
                t = self.fresh('tmp')
                self.emit('%s %s = %s;' % (self.L.ctype(q), t, self.rv(c)))
            return '&' + t
        if k == 'ConditionalOperator':
            c = self.rv(ks[0])
            t = self.fresh('p')
            self.emit('%s* %s;' % (self.L.ctype(qt(n)), t))
            self.enter_cond()
            self.emit('if (%s) {' % c)
            self.ind += 1
            self.emit('%s = %s;' % (t, self.lv(ks[1])))
            self.ind -= 1
            self.emit('} else {')
            self.ind += 1
            self.emit('%s = %s;' % (t, self.lv(ks[2])))
            self.ind -= 1
            self.emit('}')
            self.leave_cond()
            return t
        if k == 'ArraySubscriptExpr':
            return '&%s[%s]' % (self.rv(ks[0]), self.rv(ks[1]))
        if k == 'ExprWithCleanups':
            self.push_frame()
            p = self.lv(ks[0])
            if self.frames[-1]:
                t = self.fresh('p')
                self.emit('%s* %s = %s;' % (self.L.ctype(qt(n)), t, p))
                p = t
            self.pop_frame()
            return p
        if k == 'CXXThisExpr':
            raise Unsupported('lv of this')
        if k == 'StringLiteral':
            return n.get('value', '""')
        raise Unsupported('lv %s' % k)

    # ---- class prvalues
    def into(self, n, dest):
        self.count(n)
        k = n['kind']
        ks = kids(n)
        if k in ('ParenExpr', 'CXXBindTemporaryExpr', 'ConstantExpr'):
            return self.into(ks[0], dest)
        if k == 'ExprWithCleanups':
            self.push_frame()
            self.into(ks[0], dest)
            self.pop_frame()
            return
        if k in CAST_KINDS:
            ck = n.get('castKind')
            if ck in ('ConstructorConversion', 'NoOp', 'UserDefinedConversion'):
                return self.into(ks[0], dest)
            raise Unsupported('into cast kind %s' % ck)
        if k in CTOR_KINDS:
            return self.construct(n, dest)
        if k == 'UserDefinedLiteral':
            # std::chrono literal (200ms, 1s ...): the token is read from the source text
            b = n.get('_begin')
            off = n.get('range', {}).get('begin', {}).get('offset')
            tl = n.get('range', {}).get('begin', {}).get('tokLen')
            if b is None or off is None or tl is None or self.L.ctype(qt(n)) != 'struct vf_msec':
                raise Unsupported('user-defined literal of type ' + qt(n))
            tok = open(b[0], 'rb').read()[off:off + tl].decode()
            m = re.fullmatch(r"([0-9][0-9']*)(ms|s|min|h)", tok)
            if not m:
                raise Unsupported('user-defined literal ' + tok)
            val = int(m.group(1).replace("'", '')) * {'ms': 1, 's': 1000, 'min': 60000, 'h': 3600000}[m.group(2)]
            self.emit('(%s)->ticks = %d;   /* %s */' % (dest, val, tok))
            return
        if k in CALL_KINDS:
            return self.call(n, mode='into', dest=dest)
        if k == 'ConditionalOperator':
            c = self.rv(ks[0])
            self.enter_cond()
            self.emit('if (%s) {' % c)
            self.ind += 1
            self.into(ks[1], dest)
            self.ind -= 1
            self.emit('} else {')
            self.ind += 1
            self.into(ks[2], dest)
            self.ind -= 1
            self.emit('}')
            self.leave_cond()
            return
        if k == 'LambdaExpr':
            return self.lambda_into(n, dest)
        if k == 'InitListExpr':
            return self.initlist_into(n, dest)
        if k == 'CXXDefaultArgExpr' and ks:
            return self.into(ks[0], dest)
        if k == 'MaterializeTemporaryExpr':
            return self.into(ks[0], dest)
        if k == 'CXXInheritedCtorInitExpr':
            # inheriting constructor: the base-class constructor with the same parameter list is
            # called with this constructor's own parameters
            q = qt(n)
            pnodes = [c for c in kids(self.f.node) if c.get('kind') == 'ParmVarDecl']
            params, rest = fsig_params(self.f.node['type']['qualType'])
            cn = self.L.class_cname(q)
            args = [dest]
            for p in pnodes:
                kind_, nm = self.varmap[p['id']]
                args.append(nm)
            if not params:
                fn = cn + '__ctor'
            else:
                fn = cn + '__ctor__' + sig_tag(params, qualify(split(q)[0]))
            if self.L.rec_of_type(q) is not None:
                raise Unsupported('inherited constructor of a repository base class')
            self.externs.add(fn)
            self.emit('%s(%s);' % (fn, ', '.join(args)))
            if 'noexcept' not in rest:
                self.exc_check()
            return
        if k == 'CXXStdInitializerListExpr':
            # std::initializer_list<E>{e1..en}: a backing array plus {pointer, length}
            arr = ks[0]
            while arr.get('kind') in ('MaterializeTemporaryExpr', 'ExprWithCleanups', 'CXXBindTemporaryExpr') or arr.get('kind') in CAST_KINDS:
                arr = kids(arr)[0]
            if arr.get('kind') != 'InitListExpr':
                raise Unsupported('std::initializer_list backing store ' + str(arr.get('kind')))
            elems = kids(arr)
            aq = qt(arr)
            m = re.match(r'^(.*)\[(\d+)\]$', aq.strip())
            if not m:
                raise Unsupported('std::initializer_list array type ' + aq)
            eq = m.group(1).strip()
            if self.L.is_class(eq):
                raise Unsupported('std::initializer_list of class type ' + eq)
            t = self.fresh('il')
            vals = [self.rv(e) for e in elems]
            self.emit('%s %s[%d] = { %s };' % (self.L.ctype(eq), t, max(1, len(vals)), ', '.join(vals) if vals else '0'))
            self.emit('%s = %s; %s = %d;' % (arrow(dest, 'p'), t, arrow(dest, 'n'), len(vals)))
            return
        raise Unsupported('into %s' % k)

    def initlist_into(self, n, dest):
        q = qt(n)
        ks = kids(n)
        rec = self.L.rec_of_type(q)
        if rec is None:
            if self.L.is_trivial_ext(q) and not ks:
                return
            if not ks:
                cn = self.L.class_cname(q) + '__ctor'
                self.externs.add(cn)
                self.emit('%s(%s);' % (cn, dest))
                return
            raise Unsupported('init list for external type ' + q)
        if len(ks) > len(rec.fields):
            raise Unsupported('init list longer than aggregate')
        for fdecl, init in zip(rec.fields, ks):
            self.init_field(dest, fdecl, init)

    def init_field(self, obj, fdecl, init):
        fq = qt(fdecl)
        tgt = arrow(obj, fdecl['name'])
        if qualify(fq).rstrip().endswith('&'):
            self.emit('%s = %s;' % (tgt, self.lv(init)))
        elif self.L.is_class(fq):
            self.into(init, '&' + tgt)
        else:
            if init.get('kind') == 'ImplicitValueInitExpr':
                self.emit('%s = 0;' % tgt)
            else:
                self.emit('%s = %s;' % (tgt, self.rv(init)))

    def construct(self, n, dest):
        q = qt(n)
        ks = kids(n)
        rec = self.L.rec_of_type(q)
        ctor_t = n.get('ctorType', {}).get('qualType', 'void ()')
        params, rest = fsig_params(ctor_t)
        if n.get('elidable') and len(ks) == 1 and not self.is_glvalue(ks[0]):
            return self.into(ks[0], dest)
        is_copy_move = False
        if len(params) == 1:
            b, np_ = split(params[0])
            if np_ == 1 and sanitize(b) == sanitize(split(q)[0]):
                is_copy_move = True
        if rec is not None:
            decl = None
            for m in rec.methods:
                if m.get('kind') == 'CXXConstructorDecl' and m['type']['qualType'] == ctor_t:
                    decl = m
                    break
            f = self.L.find_fn(decl['id']) if decl is not None else None
            if f is None:
                dd = rec.node.get('definitionData', {})
                if is_copy_move:
                    key = 'moveCtor' if params[0].strip().endswith('&&') else 'copyCtor'
                    if dd.get(key, {}).get('trivial') or rec.is_lambda or dd.get('isAggregate') or dd.get('isTriviallyCopyable'):
                        self.emit('*%s = *%s;' % (dest, self.lv(ks[0])))
                        return
                if not params:
                    if dd.get('defaultCtor', {}).get('trivial') or decl is None or decl.get('isImplicit'):
                        if n.get('zeroing'):
                            self.emit('__builtin_memset(%s, 0, sizeof(*%s));' % (dest, dest))
                        # trivial default construction, or implicit one with only trivial members
                        if dd.get('defaultCtor', {}).get('trivial'):
                            return
                raise Unsupported('constructor %s of %s has no body in the AST (not instantiated)' % (ctor_t, rec.cname))
            args = self.args(ks, params)
            self.calls.add(f.cname)
            self.emit('%s(%s);' % (f.cname, ', '.join([dest] + args)))
            if 'noexcept' not in f.node['type']['qualType'].split(')')[-1]:
                self.exc_check()
            return
        # external class
        cn = self.L.class_cname(q)
        if self.L.is_trivial_ext(q):
            if is_copy_move:
                self.emit('*%s = *%s;' % (dest, self.lv(ks[0])))
                return
            if not params:
                return
        if is_copy_move:
            fn = cn + ('__ctor_move' if params[0].strip().endswith('&&') else '__ctor_copy')
        elif not params:
            fn = cn + '__ctor'
        else:
            fn = cn + '__ctor__' + sig_tag(params, qualify(split(q)[0]))
        args = self.args(ks, params, ext=True)
        self.externs.add(fn)
        self.emit('%s(%s);' % (fn, ', '.join([dest] + args)))
        if 'noexcept' not in rest:
            self.exc_check()

    def args(self, arg_nodes, params=None, ext=False):
        out = []
        for i, a in enumerate(arg_nodes):
            out.append(self.arg(a, ext=ext))
        return out

    def arg(self, a, ext=False):
        q = qt(a)
        if a.get('kind') == 'CXXDefaultArgExpr' and not kids(a):
            base, np_ = split(q)
            if 'memory_order' in base:
                return 'VF_DEFAULT_MO'
            if not ext:
                raise Unsupported('defaulted argument of a repository function (type %s)' % q)
            # defaulted argument of a std:: function: the models take a placeholder
            if self.is_glvalue(a) or self.L.is_class(q) or np_:
                return '((void*)0) /* default argument */'
            return '0 /* default argument */'
        if self.is_glvalue(a):
            return self.lv(a)
        if self.L.is_class(q):
            t = self.new_class_temp(q, 'arg')
            self.into(a, '&' + t)
            self.temp_done(q, t, 'frame')
            return '&' + t
        e = self.rv(a)
        return e

    def repo_default_arg(self, f, i, a):
        """defaulted argument of a repository function: the default expression written on the
        parameter declaration (scalar constants only)"""
        node = f.node
        seen = 0
        while node is not None and seen < 8:
            seen += 1
            ps = [c for c in node.get('inner', []) if isinstance(c, dict) and c.get('kind') == 'ParmVarDecl']
            if i < len(ps):
                init = [c for c in kids(ps[i])]
                if init and not self.L.is_class(qt(a)) and not self.is_glvalue(a):
                    return self.rv(init[0])
            prev = node.get('previousDecl')
            node = self.L.by_id.get(prev) if prev else None
        raise Unsupported('defaulted argument of a repository function (type %s)' % qt(a))

    # ---- calls
    def callee_info(self, n):
        """-> dict(kind='repo'|'ext', name, self_arg(ptr or None), args(list of nodes), noexcept, ftype)"""
        k = n['kind']
        ks = kids(n)
        if k == 'CXXMemberCallExpr':
            me = self.strip_parens(ks[0])
            if me['kind'] != 'MemberExpr':
                raise Unsupported('member call through ' + me['kind'])
            obj = kids(me)[0]
            if me.get('isArrow'):
                selfp = self.rv(obj)
                oq = qt(obj)
                ob, onp = split(oq)
                objq = ob
            else:
                selfp = self.lv(obj)
                objq = split(qt(obj))[0]
            mid = me.get('referencedMemberDecl')
            f = self.L.find_fn(mid)
            d = self.L.by_id.get(mid)
            if d is not None and d.get('virtual') and self.L.owner.get(mid) is not None and d.get('kind') != 'CXXDestructorDecl' \
                    and not me.get('hasQualifier') and self.strip_parens(obj).get('kind') != 'CXXThisExpr__never':
                return dict(kind='virtual', d=d, rec=self.L.owner[mid], selfp=selfp, args=ks[1:])
            if f is not None:
                return dict(kind='repo', f=f, selfp=selfp, args=ks[1:])
            if d is not None and self.L.owner.get(mid) is not None:
                rec = self.L.owner[mid]
                # declared gmlc member without body: trivial implicit assignment?
                if d.get('name') == 'operator=' and (d.get('isImplicit') or d.get('explicitlyDefaulted')):
                    return dict(kind='assign', selfp=selfp, args=ks[1:])
                if d.get('virtual') or d.get('pure'):
                    return dict(kind='virtual', d=d, rec=rec, selfp=selfp, args=ks[1:])
                raise Unsupported('member %s of %s has no body in the AST (not instantiated)' % (d.get('name'), rec.cname))
            name = me['name']
            cn = sanitize(objq) if self.L.recs.get(sanitize(objq)) is None else self.L.recs[sanitize(objq)].cname
            if name in OPNAMES:
                mname = OPNAMES[name]
            elif name.startswith('operator '):
                mname = 'op_conv'
            elif name.startswith('~'):
                mname = 'dtor'
            else:
                mname = name
            if mname == 'push_back' and len(ks) == 2 and ks[1].get('valueCategory') in ('xvalue', 'prvalue'):
                # overload resolution picks push_back(T&&) exactly for rvalue arguments: it moves,
                # so it is told apart from the copying push_back(const T&)
                mname = 'push_back_rv'
            return dict(kind='ext', name='%s__%s__%d' % (cn, mname, len(ks) - 1), selfp=selfp, args=ks[1:])
        callee = self.strip_parens(ks[0])
        while callee['kind'] in CAST_KINDS:
            callee = self.strip_parens(kids(callee)[0])
        if callee['kind'] != 'DeclRefExpr':
            raise Unsupported('call through ' + callee['kind'])
        rd = callee['referencedDecl']
        args = ks[1:]
        f = self.L.find_fn(rd['id'])
        if k == 'CXXOperatorCallExpr' and rd['kind'] == 'CXXMethodDecl':
            # first argument is the object
            obj = args[0]
            selfp = self.lv(obj) if self.is_glvalue(obj) else self.arg(obj)
            if f is not None:
                return dict(kind='repo', f=f, selfp=selfp, args=args[1:])
            d = self.L.by_id.get(rd['id'])
            if d is not None and self.L.owner.get(rd['id']) is not None:
                if rd['name'] == 'operator=':
                    return dict(kind='assign', selfp=selfp, args=args[1:])
                raise Unsupported('operator %s of %s has no body in the AST' % (rd['name'], self.L.owner[rd['id']].cname))
            cn = self.L.class_cname(qt(obj))
            nm = rd['name']
            mname = OPNAMES.get(nm) or ('op_conv' if nm.startswith('operator ') else None)
            if mname is None:
                raise Unsupported('operator ' + nm)
            if nm in ('operator++', 'operator--') and len(args) == 2:
                mname = 'post_' + mname
                args = args[:1]
            return dict(kind='ext', name='%s__%s__%d' % (cn, mname, len(args) - 1), selfp=selfp, args=args[1:],
                        noexcept='noexcept' in rd.get('type', {}).get('qualType', '').split(')')[-1])
        if f is not None:
            return dict(kind='repo', f=f, selfp=None, args=args)
        name = rd['name']
        if name in ('move', 'forward', 'move_if_noexcept', 'as_const') and len(args) == 1:
            return dict(kind='identity', args=args)
        if name in ('addressof', '__addressof') and len(args) == 1:
            return dict(kind='addressof', args=args)
        ftype = rd.get('type', {}).get('qualType', '')
        noex = 'noexcept' in ftype.split(')')[-1]
        if rd['kind'] == 'CXXMethodDecl':
            # static member function of an external class (e.g. allocator_traits<A>::allocate):
            # named after the member and its parameter types
            params, _ = fsig_params(ftype) if '(' in ftype else ([], '')
            nm = 'ext_static_' + name + '__' + sig_tag(params)
            return dict(kind='ext', name=nm, selfp=None, args=args, noexcept=noex)
        if self.L.by_id.get(rd['id']) is not None and self.L.by_id[rd['id']].get('_in_gmlc'):
            raise Unsupported('gmlc function %s has no body in the AST' % name)
        if name in OPNAMES:
            name = OPNAMES[name]
        nm = EXT_FREE.get(name) or ('std_' + name if name in EXT_FREE else 'ext_' + name)
        if nm.startswith('ext_') or EXT_FREE.get(name) is None:
            params, _ = fsig_params(ftype) if '(' in ftype else ([], '')
            tag = sig_tag(params)
            nm = ('std_' + name if name in EXT_FREE else 'ext_' + name) + ('__' + tag if tag else '')
        return dict(kind='ext', name=self.fix_lambda_names(nm), selfp=None, args=args, noexcept=noex)

    def fix_lambda_names(self, nm):
        """closure types are printed as (lambda at file:line:col); use the stable closure name instead"""
        def rep(m):
            r = self.L.rec_lookup('(lambda at /x/%s.hpp:%s:%s)' % (m.group(1), m.group(2), m.group(3)))
            return r.cname if r is not None else m.group(0)
        return re.sub(r'lambda_([A-Za-z0-9]+)_(\d+)_(\d+)', rep, nm)

    def call(self, n, mode, dest=None):
        q = qt(n)
        info = self.callee_info(n)
        kind = info['kind']
        if kind == 'identity':
            a = info['args'][0]
            if mode == 'lv':
                return self.lv(a)
            if mode == 'rv':
                return deref(self.lv(a))
            raise Unsupported('identity call as class prvalue')
        if kind == 'addressof':
            return self.lv(info['args'][0])
        if kind == 'assign':
            src = info['args'][0]
            self.emit('*%s = *%s;' % (info['selfp'], self.lv(src)))
            if mode == 'lv':
                return info['selfp']
            if mode == 'discard':
                return None
            raise Unsupported('trivial assignment used as value')
        if kind == 'virtual':
            return self.virtual_call(n, info, mode, dest)
        args = []
        if kind == 'repo':
            f = info['f']
            name = f.cname
            self.calls.add(name)
            noex = 'noexcept' in f.node['type']['qualType'].split(')')[-1]
            retq = self.L.fn_ret_q(f)
        else:
            name = info['name']
            m = re.match(r'^std_condition_variable__(wait|wait_for|wait_until)__(\d)$', name)
            if m and ((m.group(1) == 'wait' and m.group(2) == '2') or (m.group(1) != 'wait' and m.group(2) == '3')):
                return self.cv_pred_wait(n, info, m.group(1), mode)
            self.externs.add(name)
            noex = info.get('noexcept', False)
        is_class_ret = self.L.is_class(q) and not self.is_glvalue(n)
        tmp_ret = None
        if is_class_ret:
            if mode == 'into':
                args.append(dest)
            else:
                tmp_ret = self.new_class_temp(q, 'rv')
                args.append('&' + tmp_ret)
        if info.get('selfp') is not None:
            args.append(info['selfp'])
        for i, a in enumerate(info['args']):
            if kind == 'repo' and a.get('kind') == 'CXXDefaultArgExpr' and not kids(a):
                args.append(self.repo_default_arg(info['f'], i, a))
                continue
            args.append(self.arg(a, ext=(kind != 'repo')))
        callexpr = '%s(%s)' % (name, ', '.join(args))
        ct = self.L.ctype(q) if not self.is_glvalue(n) else self.L.ctype(q) + '*'
        result = None
        if is_class_ret:
            self.emit(callexpr + ';')
            if not noex:
                self.exc_check()
            if tmp_ret is not None:
                self.temp_done(q, tmp_ret, 'frame')
                if mode == 'discard':
                    return None
                raise Unsupported('class prvalue call result used as ' + mode)
            return None
        if ct == 'void':
            self.emit(callexpr + ';')
            if not noex:
                self.exc_check()
            return '((void)0)'
        if mode == 'discard':
            self.emit(callexpr + ';')
            if not noex:
                self.exc_check()
            return None
        t = self.fresh('r')
        self.emit('%s %s = %s;' % (ct, t, callexpr))
        if not noex:
            self.exc_check()
        if self.is_glvalue(n):
            return t if mode == 'lv' else deref(t)
        if mode == 'lv':
            raise Unsupported('prvalue call used as lvalue')
        return t

    def cv_pred_wait(self, n, info, which, mode):
        """[thread.condition.condvar]: wait(lock, pred) is `while (!pred()) wait(lock);`
        wait_until(lock, t, pred) is `while (!pred()) if (wait_until(lock, t) == timeout)
        return pred(); return true;`  and wait_for(lock, d, pred) is the same with a duration."""
        cv = info['selfp']
        a = info['args']
        lk = self.lv(a[0])
        pred_node = a[-1]
        pq = qt(pred_node)
        rec = self.L.rec_of_type(pq)
        if rec is None or not rec.is_lambda:
            raise Unsupported('condition_variable predicate that is not a repo lambda')
        pred = self.arg(pred_node)
        callee = rec.cname + '__op_call'
        self.calls.add(callee)
        lid = self.loopn
        self.loopn += 1
        res = None
        if which != 'wait':
            t = self.lv(a[1])
            res = self.fresh('cvres')
            self.emit('_Bool %s;' % res)
        self.emit('while (1)')
        self.emit('/*@LOOP %s.%d@*/' % (self.f.cname, lid))
        self.emit('{')
        self.ind += 1
        c = self.fresh('pred')
        self.emit('_Bool %s = %s(%s);' % (c, callee, pred))
        self.exc_check()
        if which == 'wait':
            self.emit('if (%s) break;' % c)
            self.emit('std_condition_variable__wait__1(%s, %s);' % (cv, lk))
            self.externs.add('std_condition_variable__wait__1')
        else:
            self.emit('if (%s) { %s = 1; break; }' % (c, res))
            st = self.fresh('to')
            fn = 'std_condition_variable__%s__2' % which
            self.externs.add(fn)
            self.emit('int %s = %s(%s, %s, %s);' % (st, fn, cv, lk, t))
            self.emit('if (%s) {' % st)
            self.ind += 1
            c2 = self.fresh('pred')
            self.emit('_Bool %s = %s(%s);' % (c2, callee, pred))
            self.exc_check()
            self.emit('%s = %s; break;' % (res, c2))
            self.ind -= 1
            self.emit('}')
        self.ind -= 1
        self.emit('}')
        if which == 'wait':
            return '((void)0)' if mode != 'discard' else None
        return res if mode != 'discard' else None

    def virtual_call(self, n, info, mode, dest):
        """virtual dispatch: a chain over the final overriders of every lowered class of the hierarchy"""
        q = qt(n)
        if self.L.is_class(q) and not self.is_glvalue(n):
            raise Unsupported('virtual call returning a class by value')
        ovs = self.L.overriders(info['rec'], info['d'])
        if not ovs:
            raise Unsupported('virtual call without any lowered overrider: ' + str(info['d'].get('name')))
        root = self.L.poly_root(info['rec'])
        sp = self.fresh('vobj')
        self.emit('struct %s* %s = %s;' % (info['rec'].cname, sp, info['selfp']))
        args = [self.arg(a) for a in info['args']]
        ct = self.L.ctype(q) if not self.is_glvalue(n) else self.L.ctype(q) + '*'
        res = None
        if ct != 'void':
            res = self.fresh('vr')
            self.emit('%s %s;' % (ct, res))
        first = True
        for r, f in ovs:
            self.calls.add(f.cname)
            call = '%s(%s)' % (f.cname, ', '.join(['(struct %s*)%s' % (f.rec.cname, sp)] + args))
            self.emit('%sif (((struct %s*)%s)->vf_vtag == VF_TAG_%s) { %s%s; }' % ('' if first else 'else ', root.cname, sp, r.cname, (res + ' = ') if res else '', call))
            first = False
        self.emit('else { __CPROVER_assert(0, "[vcall] virtual call on an object whose dynamic type is outside the lowered class hierarchy"); }')
        self.exc_check()
        if mode == 'discard' or ct == 'void':
            return '((void)0)' if mode != 'discard' else None
        if self.is_glvalue(n):
            return res if mode == 'lv' else deref(res)
        return res

    def discard(self, n):
        """evaluate for side effects"""
        k = n['kind']
        ks = kids(n)
        if k in ('ParenExpr',):
            return self.discard(ks[0])
        if k == 'ExprWithCleanups':
            self.push_frame()
            self.discard(ks[0])
            self.pop_frame()
            return
        if k in CAST_KINDS and n.get('castKind') in ('ToVoid', 'NoOp', 'LValueToRValue'):
            return self.discard(ks[0])
        if k in CALL_KINDS:
            q = qt(n)
            self.count(n)
            self.call(n, mode='discard')
            return
        if self.is_glvalue(n):
            self.lv(n)
            return
        q = qt(n)
        if self.L.is_class(q):
            t = self.new_class_temp(q, 'tmp')
            self.into(n, '&' + t)
            self.temp_done(q, t, 'frame')
            return
        e = self.rv(n)
        if e and not re.match(r'^[\w\d]+$', e) and e != '((void)0)':
            self.emit('(void)%s;' % e)

    # ---- lambdas
    def lambda_into(self, n, dest):
        ks = kids(n)
        recn = ks[0]
        rec = self.L.rec_of_id.get(recn['id'])
        if rec is None:
            raise Unsupported('lambda closure record not indexed')
        inits = [c for c in ks[1:] if c.get('kind') != 'CompoundStmt']
        if len(inits) != len(rec.fields):
            raise Unsupported('lambda captures/fields mismatch')
        for i, (fd, ini) in enumerate(zip(rec.fields, inits)):
            fq = qt(fd)
            tgt = arrow(dest, 'cap%d' % i)
            if qualify(fq).rstrip().endswith('&'):
                self.emit('%s = %s;' % (tgt, self.lv(ini)))
            elif self.L.is_class(fq):
                self.into(ini, '&' + tgt)
            else:
                self.emit('%s = %s;' % (tgt, self.rv(ini)))

    # ---- new / delete
    def new_expr(self, n):
        ks = kids(n)
        pt = qt(n)
        base, np_ = split(pt)
        elemq = qualify(pt).rstrip()
        elemq = elemq[:-1].strip()
        if n.get('isArray'):
            raise Unsupported('array new')
        t = self.fresh('new')
        ct = self.L.ctype(elemq)
        self.emit('%s* %s = (%s*)vf_operator_new(sizeof(%s));' % (ct, t, ct, ct))
        self.externs.add('vf_operator_new')
        self.exc_check()
        init = [c for c in ks if c.get('kind') not in ('CXXDefaultArgExpr',)]
        if init:
            c = init[-1]
            if self.L.is_class(elemq):
                # constructor may throw: release the storage
                self.push_scope('block')
                self.scopes[-1]['entries'].append({'code': 'vf_operator_delete(%s);' % t, 'nrvo': None})
                self.into(c, t)
                self.pop_scope(run=False)
            else:
                self.emit('*%s = %s;' % (t, self.rv(c)))
        return t

    def delete_stmt(self, n):
        ks = kids(n)
        if n.get('isArray'):
            raise Unsupported('array delete')
        p = self.rv(ks[0])
        pq = qt(ks[0])
        elemq = qualify(pq).rstrip()[:-1].strip()
        t = self.fresh('del')
        self.emit('%s %s = %s;' % (self.L.ctype(pq), t, p))
        self.emit('if (%s) {' % t)
        self.ind += 1
        if self.L.needs_dtor(elemq):
            self.emit('%s__dtor(%s);' % (self.L.class_cname(elemq), t))
            self.calls.add(self.L.class_cname(elemq) + '__dtor')
        self.emit('vf_operator_delete(%s);' % t)
        self.externs.add('vf_operator_delete')
        self.ind -= 1
        self.emit('}')
